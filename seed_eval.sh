#!/bin/bash
# usage: seed_eval.sh <worktree-id> <label> <prop> [more props...]
# Confirms a sub-agent's seeded change in its scratch worktree (suite passes, demo fails with / passes without the change),
# stores it under /verif/seeded/<label>/, runs our quick check(s) for the given properties against it in /repo, and reverts /repo.
id=$1; label=$2; shift 2; props="$@"
wt=${SEEDROOT:-/tmp/seed}/$id
export GOFLAGS=-mod=mod GOPROXY=off
dst=/verif/seeded/$label; mkdir -p $dst
cp -r $wt/_seed/* $dst/
cd $wt || exit 1
demos=$(git status --porcelain | grep '^??' | awk '{print $2}' | grep -v '^_seed' | grep '\.go$')
pkgs=$(for d in $demos; do echo ./$(dirname $d); done | sort -u)
exp=""; grep -qi synctest $dst/DEMO.md && exp="GOEXPERIMENT=synctest"
log=$dst/confirm.log; : > $log
echo "demo files: $demos ; packages: $pkgs ; env: $exp" | tee -a $log
# 1. suite with change, demo moved aside
mkdir -p /tmp/aside_$id; for d in $demos; do mv $d /tmp/aside_$id/$(echo $d | tr / _); done
go build ./... >> $log 2>&1 || echo "BUILD FAILED" | tee -a $log
sf=$(go test -vet=off -count=1 ./... 2>&1 | tee -a $log | grep -c '^FAIL\|^--- FAIL')
echo "existing suite with change: failing lines=$sf" | tee -a $log
for d in $demos; do mv /tmp/aside_$id/$(echo $d | tr / _) $d; done
# 2. demo with change
env $exp timeout 300 go test -vet=off -count=1 -timeout 120s -run 'Seed|seed|SEED' $pkgs > /tmp/demo_with_$id.log 2>&1; rc_with=$?
# 3. demo without change
git apply -R $dst/patch.diff || echo "REVERSE APPLY FAILED" | tee -a $log
env $exp timeout 300 go test -vet=off -count=1 -timeout 120s -run 'Seed|seed|SEED' $pkgs > /tmp/demo_without_$id.log 2>&1; rc_without=$?
git apply $dst/patch.diff
echo "demo with change exit=$rc_with (want non-zero); demo on original exit=$rc_without (want 0)" | tee -a $log
tail -5 /tmp/demo_with_$id.log >> $log
# 4. our checks
cd /verif
export VERIF_SEED_EVIDENCE_DIR=$dst/evidence
git -C /repo apply $dst/patch.diff || { echo "PATCH DOES NOT APPLY TO /repo" | tee -a $log; exit 1; }
for p in $props; do
  timeout 1200 ./check $p --tier quick > $dst/check_$p.out 2>&1; rc=$?
  echo "check $p exit=$rc : $(grep -m2 'assertion=' $dst/check_$p.out | sed 's/replay=.*//' | tr '\n' ';')" | tee -a $log
done
git -C /repo checkout -- .
git -C /repo status --short | head -3
