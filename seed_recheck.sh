#!/bin/bash
# usage: seed_recheck.sh <label> <prop> [more props...]   -- apply a kept seeded change to /repo, run our quick checks, revert
label=$1; shift
dst=/verif/seeded/$label
cd /verif
export VERIF_SEED_EVIDENCE_DIR=$dst/evidence
git -C /repo apply $dst/patch.diff || { echo "PATCH DOES NOT APPLY"; exit 1; }
for p in "$@"; do
  timeout 1500 ./check $p --tier quick > $dst/check_$p.out 2>&1; rc=$?
  echo "check $p exit=$rc : $(grep -m3 'assertion=' $dst/check_$p.out | sed 's/replay=.*//' | tr '\n' ';')"
  grep -E "^INCONCLUSIVE" $dst/check_$p.out | cut -c1-250 | head -5
done
git -C /repo checkout -- .
git -C /repo status --short | head -3
