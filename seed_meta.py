#!/usr/bin/env python3
"""seed_meta.py <label> <property> <caught-by> <needs...>  — writes /verif/seeded/<label>/meta.json from the confirm log"""
import sys, json, os, re
label, prop, caught = sys.argv[1], sys.argv[2], sys.argv[3]
needs = " ".join(sys.argv[4:])
d = '/verif/seeded/' + label
log = open(d + '/confirm.log').read()
checks = {}
for f in sorted(os.listdir(d)):
    m = re.match(r'check_(C\d+)\.out', f)
    if m:
        txt = open(os.path.join(d, f)).read()
        rc = re.search(r'exit=(\d)', txt)
        checks[m.group(1)] = {"exit": int(rc.group(1)) if rc else None,
                              "violations": sorted(set(re.findall(r'harness=(\S+) assertion=(\S+)', txt)))[:6]}
meta = {"breaks_property": prop, "origin": "independent sub-agent given only the property text and a scratch worktree",
        "needs_to_manifest": needs,
        "confirmed": {"existing_suite_passes_with_change": "failing lines=0" in log,
                      "demo_fails_with_change": bool(re.search(r'demo with change exit=[1-9]', log)),
                      "demo_passes_on_original": "demo on original exit=0" in log,
                      "what_i_ran": "seed_eval.sh: go build ./...; go test -vet=off -count=1 ./... (demo aside); demo with the change; git apply -R; demo on the original; ./check <prop> --tier quick with the patch applied to /repo, then git -C /repo checkout -- ."},
        "our_checks": checks, "caught_by": caught}
json.dump(meta, open(d + '/meta.json', 'w'), indent=1)
print(label, "->", caught)
