#!/bin/sh
# usage: tools_mut.sh <prop> <python-substitution-script>   (dev helper: apply a mutation to /repo, run check, revert)
prop=$1; shift
python3 - "$@" <<'PY'
import sys
f,old,new=sys.argv[1],sys.argv[2],sys.argv[3]
s=open('/repo/'+f).read()
assert old in s, "pattern not found"
open('/repo/'+f,'w').write(s.replace(old,new,1))
PY
[ $? -eq 0 ] || exit 3
(cd /repo && GOFLAGS=-mod=mod GOPROXY=off go build ./... ) || { git -C /repo checkout -- .; echo "MUTANT DOES NOT COMPILE"; exit 3; }
cd /verif && ./check $prop 2>&1 | grep -v "^harness" | cut -c1-400
git -C /repo checkout -- .
