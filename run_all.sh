#!/bin/sh
# dev helper: run every registered quick check sequentially, summarise
cd /verif
for p in $(bin/gosym list | awk '{print $1}'); do
  s=$(date +%s)
  timeout ${T:-900} ./check $p --tier ${TIER:-quick} > /tmp/run_$p.out 2>&1
  rc=$?
  e=$(date +%s)
  echo "$p exit=$rc $((e-s))s $(grep -c '^VIOLATION' /tmp/run_$p.out) violations $(grep -c '^INCONCLUSIVE' /tmp/run_$p.out) inconclusive"
done
