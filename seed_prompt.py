#!/usr/bin/env python3
"""seed_prompt.py <PROP> <root> [avoid...] — prints the prompt for a fresh sub-agent that is given ONLY the property text and a scratch worktree."""
import sys, json
pid, root = sys.argv[1], sys.argv[2]
avoid = sys.argv[3:]
import os
style = os.environ.get('SEED_STYLE', '')
p = [json.loads(l) for l in open('/verif/properties.jsonl')]
p = [x for x in p if x['id'] == pid][0]
wt = f"{root}/{pid}"
print(f"""You are helping evaluate a verification effort for the Go project tailscale/setec (a secrets service). You get ONE semantic property of the code and your own scratch git worktree of the repository. Your job: make a realistic source change that BREAKS this property while the project still compiles and its existing test suite still passes, and demonstrate the break.

Property {p['id']}: {p['title']}
Statement: {p['statement']}
Quantified over: {p['quantifier']['text']}
Code anchors: files {', '.join(p['anchors']['files'])}

Your scratch worktree (create it yourself, work ONLY there): run
  git -C /repo worktree add --detach {wt}
then work exclusively inside {wt}. Never modify anything under /repo itself, never commit, never run `git stash` (worktrees share one stash; use `git apply -R` if you need to undo). Do not read or write anything under /verif. There is no network: use `export GOFLAGS=-mod=mod GOPROXY=off` and do NOT set GOSUMDB=off.

Requirements for the change:
1. It is the kind of edit a maintainer could plausibly make (a refactor, an optimisation, a "fix", a feature) — not a blatant sabotage; a handful of lines in the non-test source files.
2. `go build ./...` succeeds and `go test -vet=off -count=1 ./...` still passes completely with the change (all existing tests, unedited).
3. The property is genuinely violated by the changed code, but it needs something specific to manifest (a particular input, state, error path, interleaving, or configuration) — say exactly what.
4. Write a demonstration: a NEW Go test file named zz_seed_demo_test.go in the relevant package (test function names starting with TestSeed), that FAILS with your change and PASSES on the original code. It may use in-package access. It must not need network and must finish within a minute.{' Avoid these already-explored ideas: ' + '; '.join(avoid) + '.' if avoid else ''}

{(style + chr(10)) if style else ''}

Deliver, inside the worktree, a directory {wt}/_seed/ containing:
  patch.diff  — output of `git diff` for the source change only (not the demo test file),
  DEMO.md     — how to run the demonstration and what it shows,
  NOTES.md    — what the change is, which clause of the property it breaks, what is needed for it to manifest,
  and a copy of zz_seed_demo_test.go.
Leave the change applied and the demo test file in place in the worktree (untracked), so it can be confirmed. Verify yourself: suite passes with the change; demo fails with it; demo passes after `git apply -R _seed/patch.diff` (then re-apply). In your final answer, summarise the change in 5 lines.""")
