package main

// SELF: the engine's conformance suite (harness/types_api/conformance.go). Not one of the 20 properties and not in
// MANIFEST.json; `./check SELF` is run by hand and by run_all.sh after engine changes.
func init() {
	self := &Property{ID: "SELF", Pkgs: []string{"types/api"}, Bounds: map[string]string{"cases": "43 concrete programs"}}
	for _, n := range []string{"A", "B", "C", "D", "E"} {
		self.Harnesses = append(self.Harnesses, &HarnessSpec{Name: "verifHarnessConformance" + n, Pkg: "types/api", Params: map[string]int{},
			ExpectReach: []string{"end"}, Desc: "engine conformance: language and library semantics on concrete programs, same file validated natively"})
	}
	propRegistry = append(propRegistry, self)
}
