package main

import (
	"fmt"
	"go/types"
	"strings"

	"golang.org/x/tools/go/ssa"
)

// Value is any engine value:
//
//	Term                 scalars (ints, bools, strings)
//	Float                floats (concrete or opaque)
//	*Value               pointers
//	Struct, Array        aggregates (value semantics, copied on load/store)
//	Slice                slices
//	*MapObj              maps
//	Iface                interfaces
//	*ssa.Function, *ssa.Builtin, *Closure, *Native   functions
//	*ChanObj             channels
//	Tuple                multi-value results
//	TimeV                abstract time.Time
//	*Opaque              opaque engine objects behind pointers of unmodelled struct types
type Value interface{}

type Float struct {
	C bool
	V float64
}

type Struct []Value
type Array []Value
type Tuple []Value

// Slice: either backed by cells (A, with Go's own len/cap) or by an opaque sequence.
type Slice struct {
	A   []Value
	Seq *SeqObj
	Nil bool
}

// SeqObj is the backing store of a []byte whose contents are one SMT String
// (symbolic length) or a structured opaque blob.
type SeqObj struct {
	T    Term // SStr, when Blob == nil
	Blob *Blob
	Len  Term // BV64 length (blob: fresh positive)
}

// Blob is a Dolev-Yao style structured opaque byte string.
type Blob struct {
	Kind  string
	Parts []Value
	Type  types.Type // for JSON blobs: the Go type marshalled
	ID    int
	Line  bool // a JSON blob written by Encoder.Encode: the document followed by its newline
}

type Iface struct {
	T types.Type
	V Value
}

type Closure struct {
	Fn  *ssa.Function
	Env []Value
}

// Native is an engine-implemented function value.
type Native struct {
	Name string
	Fn   func(in *Interp, args []Value) Value
}

// BoundMethod is a method value on an interface receiver resolved lazily.
type BoundMethod struct {
	Recv Value
	Fn   Value
}

type TimeV struct {
	NS  Term // SInt: nanoseconds since year 1 (ghost clock units)
	UTC bool
}

type Opaque struct {
	Kind   string
	Fields map[string]Value
	ID     int
}

type MapSlot struct {
	K Value
	V Value
	P Term // presence (Bool)
}

type MapObj struct {
	T        *types.Map
	Slots    []*MapSlot
	ID       int
	Guard    *Value // mutex cell guarding this map (ghost), nil if none
	ReadCnt  int
	WriteCnt int
	Cap      int // max slots (0 = unlimited)
}

type ChanObj struct {
	Buf      []Value
	Cap      int
	Closed   bool
	Env      string // non-empty: environment channel kind
	EnvV     Value
	EnvReady Value // closure func() bool evaluated at each look
	EnvTake  Value // closure func() run when a value is taken
	ID       int
}

type Mutex struct {
	Held  bool
	Owner int
}

func isNilValue(v Value) bool {
	switch x := v.(type) {
	case nil:
		return true
	case *Value:
		return x == nil
	case *MapObj:
		return x == nil
	case Slice:
		return x.Nil
	case Iface:
		return x.T == nil
	case *Closure:
		return x == nil
	case *ssa.Function:
		return x == nil
	case *ChanObj:
		return x == nil
	case *Opaque:
		return x == nil
	case NilFunc:
		return true
	}
	return false
}

type NilFunc struct{}

// zero returns the zero value of a type.
func (in *Interp) zero(t types.Type) Value {
	if isTimeType(t) {
		return TimeV{NS: mkInt(0)}
	}
	if isNamed(t, "reflect", "Value") {
		return RValue{}
	}
	switch u := t.Underlying().(type) {
	case *types.Basic:
		switch {
		case u.Info()&types.IsBoolean != 0:
			return mkBool(false)
		case u.Info()&types.IsString != 0:
			return mkStr("")
		case u.Info()&types.IsInteger != 0:
			return mkBV(intWidth(u), 0)
		case u.Info()&types.IsFloat != 0:
			return Float{C: true}
		case u.Kind() == types.UnsafePointer:
			return (*Value)(nil)
		case u.Kind() == types.UntypedNil, u.Kind() == types.Invalid:
			return nil
		}
		panic(abort("zero of basic " + u.String()))
	case *types.Pointer:
		return (*Value)(nil)
	case *types.Struct:
		s := make(Struct, u.NumFields())
		for i := range s {
			s[i] = in.zero(u.Field(i).Type())
		}
		return s
	case *types.Array:
		a := make(Array, u.Len())
		for i := range a {
			a[i] = in.zero(u.Elem())
		}
		return a
	case *types.Slice:
		return Slice{Nil: true}
	case *types.Map:
		return (*MapObj)(nil)
	case *types.Interface:
		return Iface{}
	case *types.Signature:
		return NilFunc{}
	case *types.Chan:
		return (*ChanObj)(nil)
	case *types.Tuple:
		tp := make(Tuple, u.Len())
		for i := range tp {
			tp[i] = in.zero(u.At(i).Type())
		}
		return tp
	}
	panic(abort("zero of " + t.String()))
}

func isTimeType(t types.Type) bool {
	n, ok := t.(*types.Named)
	if !ok {
		return false
	}
	o := n.Obj()
	return o.Pkg() != nil && o.Pkg().Path() == "time" && o.Name() == "Time"
}

func intWidth(b *types.Basic) int {
	switch b.Kind() {
	case types.Int8, types.Uint8:
		return 8
	case types.Int16, types.Uint16:
		return 16
	case types.Int32, types.Uint32, types.UntypedRune:
		return 32
	}
	return 64
}

func isSigned(t types.Type) bool {
	b, ok := t.Underlying().(*types.Basic)
	if !ok {
		return false
	}
	return b.Info()&types.IsUnsigned == 0 && b.Info()&types.IsInteger != 0
}

// copyVal copies aggregates so that loads/stores have value semantics.
func copyVal(v Value) Value {
	switch x := v.(type) {
	case Struct:
		c := make(Struct, len(x))
		for i := range x {
			c[i] = copyVal(x[i])
		}
		return c
	case Array:
		c := make(Array, len(x))
		for i := range x {
			c[i] = copyVal(x[i])
		}
		return c
	case Tuple:
		c := make(Tuple, len(x))
		for i := range x {
			c[i] = copyVal(x[i])
		}
		return c
	}
	return v
}

// assignInPlace stores v into the cell p keeping the identity of the cells of an aggregate already there:
// addresses of fields and elements taken before the store (go/ssa computes &x.f before zeroing x for
// `x = T{f: ...}`) stay valid, as they do in real memory.
func assignInPlace(p *Value, v Value) {
	switch src := v.(type) {
	case Struct:
		if dst, ok := (*p).(Struct); ok && len(dst) == len(src) {
			for i := range src {
				assignInPlace(&dst[i], src[i])
			}
			return
		}
	case Array:
		if dst, ok := (*p).(Array); ok && len(dst) == len(src) {
			for i := range src {
				assignInPlace(&dst[i], src[i])
			}
			return
		}
	}
	*p = v
}

// valEq builds the Go == relation as a Bool term.
func (in *Interp) valEq(a, b Value) Term {
	switch x := a.(type) {
	case Term:
		y, ok := b.(Term)
		if !ok {
			panic(abort(fmt.Sprintf("valEq Term vs %T", b)))
		}
		return tEq(x, y)
	case Float:
		y := b.(Float)
		if x.C && y.C {
			return mkBool(x.V == y.V)
		}
		return in.freshBool("floateq")
	case *Value:
		y, ok := b.(*Value)
		if !ok {
			if b == nil {
				return mkBool(x == nil)
			}
			panic(abort(fmt.Sprintf("valEq ptr vs %T", b)))
		}
		return mkBool(x == y)
	case *MapObj:
		y, _ := b.(*MapObj)
		return mkBool(x == y)
	case *ChanObj:
		y, _ := b.(*ChanObj)
		return mkBool(x == y)
	case *Opaque:
		y, _ := b.(*Opaque)
		return mkBool(x == y)
	case Slice:
		// only comparison with nil is legal
		y := b.(Slice)
		if y.Nil {
			return mkBool(x.Nil)
		}
		return mkBool(y.Nil && x.Nil)
	case Struct:
		y := b.(Struct)
		var cs []Term
		for i := range x {
			cs = append(cs, in.valEq(x[i], y[i]))
		}
		return tAnd(cs...)
	case Array:
		y := b.(Array)
		var cs []Term
		for i := range x {
			cs = append(cs, in.valEq(x[i], y[i]))
		}
		return tAnd(cs...)
	case Iface:
		y, ok := b.(Iface)
		if !ok {
			panic(abort(fmt.Sprintf("valEq iface vs %T", b)))
		}
		if x.T == nil || y.T == nil {
			return mkBool(x.T == nil && y.T == nil)
		}
		if !types.Identical(x.T, y.T) {
			return mkBool(false)
		}
		if !types.Comparable(x.T) {
			panic(goPanic{msg: "runtime error: comparing uncomparable type " + x.T.String()})
		}
		return in.valEq(x.V, y.V)
	case TimeV:
		y := b.(TimeV)
		return tEq(x.NS, y.NS)
	case NilFunc:
		return mkBool(isNilValue(b))
	case *Closure, *ssa.Function, *Native:
		if isNilValue(b) {
			return mkBool(isNilValue(a))
		}
		panic(abort("func comparison"))
	case nil:
		return mkBool(isNilValue(b))
	}
	panic(abort(fmt.Sprintf("valEq %T", a)))
}

func describe(v Value) string {
	switch x := v.(type) {
	case Term:
		if x.C {
			switch x.S {
			case SBool:
				return fmt.Sprint(x.B)
			case SStr:
				return fmt.Sprintf("%q", x.Str)
			default:
				return fmt.Sprint(x.U)
			}
		}
		s := x.smt()
		if len(s) > 60 {
			s = s[:60] + "…"
		}
		return s
	case Struct:
		var p []string
		for _, f := range x {
			p = append(p, describe(f))
		}
		return "{" + strings.Join(p, ",") + "}"
	case Iface:
		if x.T == nil {
			return "nil"
		}
		return x.T.String() + ":" + describe(x.V)
	case *Value:
		if x == nil {
			return "nilptr"
		}
		return "&" + describe(*x)
	}
	return fmt.Sprintf("%T", v)
}

func isNamed(t types.Type, pkg, name string) bool {
	n, ok := t.(*types.Named)
	if !ok {
		return false
	}
	o := n.Obj()
	return o.Pkg() != nil && o.Pkg().Path() == pkg && o.Name() == name
}
