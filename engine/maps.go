package main

import (
	"fmt"
	"go/types"

	"golang.org/x/tools/go/ssa"
)

// isTermable: can values of this Go type be merged with ite (scalars, strings)?
func isTermable(t types.Type) bool {
	if isTimeType(t) {
		return false
	}
	switch u := t.Underlying().(type) {
	case *types.Basic:
		return u.Info()&(types.IsBoolean|types.IsInteger|types.IsString) != 0
	}
	return false
}

func (in *Interp) hitCond(s *MapSlot, k Value) Term {
	return tAnd(s.P, in.valEq(s.K, k))
}

func (in *Interp) mapLookup(m *MapObj, k Value, commaOk bool, vt types.Type) Value {
	zero := in.zero(vt)
	if m == nil {
		if commaOk {
			return Tuple{zero, mkBool(false)}
		}
		return zero
	}
	in.onMapRead(m)
	conds := make([]Term, len(m.Slots))
	for i, s := range m.Slots {
		conds[i] = in.hitCond(s, k)
	}
	// fast path: all concrete
	allC := true
	for _, c := range conds {
		if !c.C {
			allC = false
		}
	}
	if allC {
		for i, c := range conds {
			if c.B {
				return pack(copyVal(m.Slots[i].V), mkBool(true), commaOk)
			}
		}
		return pack(zero, mkBool(false), commaOk)
	}
	if isTermable(vt) {
		r := zero.(Term)
		for i := len(m.Slots) - 1; i >= 0; i-- {
			r = tIte(conds[i], m.Slots[i].V.(Term), r)
		}
		return pack(r, tOr(conds...), commaOk)
	}
	// fork: hit slot i, or miss
	alts := append([]Term{}, conds...)
	var neg []Term
	for _, c := range conds {
		neg = append(neg, tNot(c))
	}
	alts = append(alts, tAnd(neg...))
	i := in.choose(alts)
	if i < len(m.Slots) {
		return pack(copyVal(m.Slots[i].V), mkBool(true), commaOk)
	}
	return pack(zero, mkBool(false), commaOk)
}

func pack(v Value, ok Term, commaOk bool) Value {
	if commaOk {
		return Tuple{v, ok}
	}
	return v
}

func (in *Interp) mapUpdate(m *MapObj, k, v Value) {
	if m == nil {
		panic(goPanic{msg: "assignment to entry in nil map"})
	}
	in.onMapWrite(m)
	conds := make([]Term, len(m.Slots))
	for i, s := range m.Slots {
		conds[i] = in.hitCond(s, k)
	}
	alts := append([]Term{}, conds...)
	var neg []Term
	for _, c := range conds {
		neg = append(neg, tNot(c))
	}
	alts = append(alts, tAnd(neg...))
	i := in.choose(alts)
	if i < len(m.Slots) {
		m.Slots[i].V = v
		return
	}
	// reuse a definitely-absent slot with an equal key expression? simply append
	if m.Cap > 0 && len(m.Slots) >= m.Cap {
		panic(pathEnd{"unwind:map-capacity"})
	}
	m.Slots = append(m.Slots, &MapSlot{K: k, V: v, P: mkBool(true)})
}

func (in *Interp) mapDelete(m *MapObj, k Value) {
	if m == nil {
		return
	}
	in.onMapWrite(m)
	conds := make([]Term, len(m.Slots))
	for i, s := range m.Slots {
		conds[i] = in.hitCond(s, k)
	}
	alts := append([]Term{}, conds...)
	var neg []Term
	for _, c := range conds {
		neg = append(neg, tNot(c))
	}
	alts = append(alts, tAnd(neg...))
	i := in.choose(alts)
	if i < len(m.Slots) {
		m.Slots = append(append([]*MapSlot{}, m.Slots[:i]...), m.Slots[i+1:]...)
	}
}

func (in *Interp) mapLen(m *MapObj) Term {
	if m == nil {
		return mkBV(64, 0)
	}
	in.onMapRead(m)
	r := mkBV(64, 0)
	for _, s := range m.Slots {
		r = bvBin("+", r, tIte(s.P, mkBV(64, 1), mkBV(64, 0)), false)
	}
	return r
}

// ---------- range ----------

type rangeIter struct {
	m     *MapObj
	slots []*MapSlot
	i     int
	str   []Term // string iteration (concrete)
	strC  string
	isStr bool
}

func (in *Interp) rangeStart(v Value) Value {
	switch x := v.(type) {
	case *MapObj:
		it := &rangeIter{m: x}
		if x != nil {
			in.onMapRead(x)
			it.slots = append(it.slots, x.Slots...)
			if in.spec != nil && in.spec.ReverseMaps {
				for i, j := 0, len(it.slots)-1; i < j; i, j = i+1, j-1 {
					it.slots[i], it.slots[j] = it.slots[j], it.slots[i]
				}
			}
		}
		return it
	case Term:
		if x.C {
			return &rangeIter{isStr: true, strC: x.Str}
		}
		panic(abort("range over symbolic string"))
	}
	panic(abort(fmt.Sprintf("range over %T", v)))
}

func (in *Interp) rangeNext(it *rangeIter, x *ssa.Next) Value {
	if it.isStr {
		if it.i >= len(it.strC) {
			return Tuple{mkBool(false), mkBV(64, 0), mkBV(32, 0)}
		}
		var r rune
		var n int
		for j, c := range it.strC[it.i:] {
			_ = j
			r = c
			n = len(string(c))
			if c == 0xFFFD {
				n = 1
			}
			break
		}
		idx := it.i
		it.i += n
		return Tuple{mkBool(true), mkBV(64, uint64(idx)), mkBV(32, uint64(r))}
	}
	tt := x.Type().(*types.Tuple)
	for it.i < len(it.slots) {
		s := it.slots[it.i]
		it.i++
		// a slot deleted during iteration is skipped (Go semantics)
		still := false
		for _, cur := range it.m.Slots {
			if cur == s {
				still = true
			}
		}
		if !still {
			continue
		}
		if in.branch(s.P) {
			return Tuple{mkBool(true), s.K, copyVal(s.V)}
		}
	}
	return Tuple{mkBool(false), in.zero(tt.At(1).Type()), in.zero(tt.At(2).Type())}
}
