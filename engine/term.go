package main

import (
	"fmt"
	"math/bits"
	"strings"
	"unicode/utf8"
)

// Sort is the SMT sort of a Term.
type Sort int

const (
	SBool Sort = iota
	SBV
	SStr
	SInt // mathematical integer (ghost clock only)
)

// Term is a scalar Go value: either concrete (C) or an SMT expression (E).
type Term struct {
	S   Sort
	W   int // width for SBV
	C   bool
	U   uint64 // concrete BV value (masked to W) ; for SInt: int64 value stored as uint64
	B   bool
	Str string
	E   string
	Vec []Term // SStr only: byte-vector representation (concrete length); nil otherwise
	IsV bool   // SStr: Vec representation in use (Vec may be empty, len 0)
	Cat []Term // SStr symbolic: flattened concatenation pieces (each concrete or atomic)
}

func mask(w int) uint64 {
	if w >= 64 {
		return ^uint64(0)
	}
	return (uint64(1) << uint(w)) - 1
}

func mkBV(w int, v uint64) Term  { return Term{S: SBV, W: w, C: true, U: v & mask(w)} }
func mkBool(b bool) Term         { return Term{S: SBool, C: true, B: b} }
func mkStr(s string) Term        { return Term{S: SStr, C: true, Str: s} }
func mkInt(v int64) Term         { return Term{S: SInt, C: true, U: uint64(v)} }
func symBV(w int, e string) Term { return Term{S: SBV, W: w, E: e} }
func symBool(e string) Term      { return Term{S: SBool, E: e} }
func symStr(e string) Term       { return Term{S: SStr, E: e} }
func symInt(e string) Term       { return Term{S: SInt, E: e} }
func vecStr(v []Term) Term       { return Term{S: SStr, IsV: true, Vec: v} }

func (t Term) sortName() string {
	switch t.S {
	case SBool:
		return "Bool"
	case SBV:
		return fmt.Sprintf("(_ BitVec %d)", t.W)
	case SStr:
		return "String"
	case SInt:
		return "Int"
	}
	return "?"
}

// signed value of concrete BV
func (t Term) sval() int64 {
	if t.W >= 64 {
		return int64(t.U)
	}
	sh := uint(64 - t.W)
	return int64(t.U<<sh) >> sh
}

func smtStrLit(s string) string {
	var b strings.Builder
	b.WriteByte('"')
	for i := 0; i < len(s); {
		r, n := utf8.DecodeRuneInString(s[i:])
		if r == utf8.RuneError && n == 1 {
			r = rune(s[i])
		}
		i += n
		switch {
		case r == '"':
			b.WriteString(`""`)
		case r >= 0x20 && r < 0x7f && r != '\\':
			b.WriteRune(r)
		default:
			fmt.Fprintf(&b, `\u{%x}`, r)
		}
	}
	b.WriteByte('"')
	return b.String()
}

// smt renders the term as an SMT-LIB expression.
func (t Term) smt() string {
	if t.S == SStr && t.IsV {
		if len(t.Vec) == 0 {
			return `""`
		}
		allC := true
		for _, b := range t.Vec {
			if !b.C {
				allC = false
			}
		}
		if allC {
			bs := make([]byte, len(t.Vec))
			for i, b := range t.Vec {
				bs[i] = byte(b.U)
			}
			return smtStrLit(latin1(bs))
		}
		parts := make([]string, len(t.Vec))
		for i, b := range t.Vec {
			parts[i] = "(str.from_code (bv2nat " + b.smt() + "))"
		}
		if len(parts) == 1 {
			return parts[0]
		}
		return "(str.++ " + strings.Join(parts, " ") + ")"
	}
	if !t.C {
		return t.E
	}
	switch t.S {
	case SBool:
		if t.B {
			return "true"
		}
		return "false"
	case SBV:
		if t.W%4 == 0 {
			return fmt.Sprintf("#x%0*x", t.W/4, t.U)
		}
		return fmt.Sprintf("(_ bv%d %d)", t.U, t.W)
	case SStr:
		return smtStrLit(t.Str)
	case SInt:
		v := int64(t.U)
		if v < 0 {
			return fmt.Sprintf("(- %d)", -v)
		}
		return fmt.Sprintf("%d", v)
	}
	return "?"
}

// latin1 maps bytes to a Go string whose runes are the byte values (so that
// smtStrLit emits one SMT char per byte).
func latin1(bs []byte) string {
	var b strings.Builder
	for _, c := range bs {
		b.WriteRune(rune(c))
	}
	return b.String()
}

// ---------- boolean ----------

func tNot(a Term) Term {
	if a.C {
		return mkBool(!a.B)
	}
	if strings.HasPrefix(a.E, "(not ") && balanced(a.E[5:len(a.E)-1]) {
		return symBool(a.E[5 : len(a.E)-1])
	}
	return symBool("(not " + a.E + ")")
}

func balanced(s string) bool {
	d := 0
	inStr := false
	for i := 0; i < len(s); i++ {
		c := s[i]
		if inStr {
			if c == '"' {
				inStr = false
			}
			continue
		}
		switch c {
		case '"':
			inStr = true
		case '(':
			d++
		case ')':
			d--
			if d < 0 {
				return false
			}
			if d == 0 && i != len(s)-1 {
				return false
			}
		case ' ':
			if d == 0 {
				return false
			}
		}
	}
	return d == 0
}

func tAnd(xs ...Term) Term {
	var parts []string
	for _, x := range xs {
		if x.C {
			if !x.B {
				return mkBool(false)
			}
			continue
		}
		parts = append(parts, x.E)
	}
	switch len(parts) {
	case 0:
		return mkBool(true)
	case 1:
		return symBool(parts[0])
	}
	return symBool("(and " + strings.Join(parts, " ") + ")")
}

func tOr(xs ...Term) Term {
	var parts []string
	for _, x := range xs {
		if x.C {
			if x.B {
				return mkBool(true)
			}
			continue
		}
		parts = append(parts, x.E)
	}
	switch len(parts) {
	case 0:
		return mkBool(false)
	case 1:
		return symBool(parts[0])
	}
	return symBool("(or " + strings.Join(parts, " ") + ")")
}

func tImplies(a, b Term) Term { return tOr(tNot(a), b) }

func tIte(c, a, b Term) Term {
	if a.S != b.S && (a.S == SInt || b.S == SInt) {
		if a.S == SBV {
			a = bvToInt(a, true)
		} else if b.S == SBV {
			b = bvToInt(b, true)
		}
	}
	if c.C {
		if c.B {
			return a
		}
		return b
	}
	if a.S == SStr && (a.IsV || b.IsV) && a.IsV && b.IsV && len(a.Vec) == len(b.Vec) {
		out := make([]Term, len(a.Vec))
		for i := range out {
			out[i] = tIte(c, a.Vec[i], b.Vec[i])
		}
		return vecStr(out)
	}
	if a.S == SBool {
		if a.C && b.C {
			if a.B == b.B {
				return a
			}
			if a.B {
				return c
			}
			return tNot(c)
		}
	}
	as, bs := a.smt(), b.smt()
	if as == bs {
		return a
	}
	r := Term{S: a.S, W: a.W, E: "(ite " + c.E + " " + as + " " + bs + ")"}
	return r
}

// ---------- equality ----------

func tEq(a, b Term) Term {
	if a.S != b.S && (a.S == SInt || b.S == SInt) && (a.S == SBV || b.S == SBV) {
		if a.S == SBV {
			a = bvToInt(a, true)
		} else {
			b = bvToInt(b, true)
		}
	}
	if a.S != b.S {
		panic(fmt.Sprintf("tEq sort mismatch %v %v", a, b))
	}
	if a.S == SStr {
		return strEq(a, b)
	}
	if a.C && b.C {
		switch a.S {
		case SBool:
			return mkBool(a.B == b.B)
		default:
			return mkBool(a.U == b.U)
		}
	}
	if a.S == SBool {
		if a.C {
			if a.B {
				return b
			}
			return tNot(b)
		}
		if b.C {
			if b.B {
				return a
			}
			return tNot(a)
		}
	}
	as, bs := a.smt(), b.smt()
	if as == bs {
		return mkBool(true)
	}
	return symBool("(= " + as + " " + bs + ")")
}

func strConcreteBytes(a Term) ([]byte, bool) {
	if a.C {
		return []byte(a.Str), true
	}
	if a.IsV {
		bs := make([]byte, len(a.Vec))
		for i, b := range a.Vec {
			if !b.C {
				return nil, false
			}
			bs[i] = byte(b.U)
		}
		return bs, true
	}
	return nil, false
}

func strEq(a, b Term) Term {
	ab, aok := strConcreteBytes(a)
	bb, bok := strConcreteBytes(b)
	if aok && bok {
		return mkBool(string(ab) == string(bb))
	}
	// vec vs (vec|concrete): positionwise
	if (a.IsV || a.C) && (b.IsV || b.C) {
		av, bv := strToVec(a), strToVec(b)
		if len(av) != len(bv) {
			return mkBool(false)
		}
		var cs []Term
		for i := range av {
			cs = append(cs, tEq(av[i], bv[i]))
		}
		return tAnd(cs...)
	}
	as, bs := a.smt(), b.smt()
	if as == bs {
		return mkBool(true)
	}
	return symBool("(= " + as + " " + bs + ")")
}

// strToVec converts a concrete or vec string to byte terms.
func strToVec(a Term) []Term {
	if a.IsV {
		return a.Vec
	}
	if a.C {
		out := make([]Term, len(a.Str))
		for i := 0; i < len(a.Str); i++ {
			out[i] = mkBV(8, uint64(a.Str[i]))
		}
		return out
	}
	panic("strToVec on symbolic String")
}

// ---------- bit-vectors ----------

func bvBin(op string, a, b Term, signed bool) Term {
	if a.W != b.W {
		panic(fmt.Sprintf("bvBin width mismatch %s %d %d", op, a.W, b.W))
	}
	w := a.W
	if a.C && b.C {
		x, y := a.U, b.U
		switch op {
		case "+":
			return mkBV(w, x+y)
		case "-":
			return mkBV(w, x-y)
		case "*":
			return mkBV(w, x*y)
		case "&":
			return mkBV(w, x&y)
		case "|":
			return mkBV(w, x|y)
		case "^":
			return mkBV(w, x^y)
		case "&^":
			return mkBV(w, x&^y)
		case "/":
			if y == 0 {
				panic("div by zero (concrete) must be handled by caller")
			}
			if signed {
				return mkBV(w, uint64(a.sval()/b.sval()))
			}
			return mkBV(w, x/y)
		case "%":
			if y == 0 {
				panic("rem by zero (concrete) must be handled by caller")
			}
			if signed {
				return mkBV(w, uint64(a.sval()%b.sval()))
			}
			return mkBV(w, x%y)
		}
	}
	// light algebraic simplifications
	switch op {
	case "+", "|", "^":
		if a.C && a.U == 0 {
			return b
		}
		if b.C && b.U == 0 {
			return a
		}
	case "-":
		if b.C && b.U == 0 {
			return a
		}
	case "&":
		if (a.C && a.U == 0) || (b.C && b.U == 0) {
			return mkBV(w, 0)
		}
		if a.C && a.U == mask(w) {
			return b
		}
		if b.C && b.U == mask(w) {
			return a
		}
	case "*":
		if (a.C && a.U == 0) || (b.C && b.U == 0) {
			return mkBV(w, 0)
		}
		if a.C && a.U == 1 {
			return b
		}
		if b.C && b.U == 1 {
			return a
		}
	}
	var f string
	switch op {
	case "+":
		f = "bvadd"
	case "-":
		f = "bvsub"
	case "*":
		f = "bvmul"
	case "&":
		f = "bvand"
	case "|":
		f = "bvor"
	case "^":
		f = "bvxor"
	case "&^":
		return symBV(w, "(bvand "+a.smt()+" (bvnot "+b.smt()+"))")
	case "/":
		if signed {
			f = "bvsdiv"
		} else {
			f = "bvudiv"
		}
	case "%":
		if signed {
			f = "bvsrem"
		} else {
			f = "bvurem"
		}
	default:
		panic("bvBin op " + op)
	}
	return symBV(w, "("+f+" "+a.smt()+" "+b.smt()+")")
}

// bvShift: shift a by count c (c already converted to a's width, unsigned semantics: count>=W gives 0/sign)
func bvShift(op string, a, c Term, signed bool) Term {
	w := a.W
	if a.C && c.C {
		n := c.U
		switch op {
		case "<<":
			if n >= uint64(w) {
				return mkBV(w, 0)
			}
			return mkBV(w, a.U<<n)
		case ">>":
			if signed {
				if n >= uint64(w) {
					n = uint64(w - 1)
				}
				return mkBV(w, uint64(a.sval()>>n))
			}
			if n >= uint64(w) {
				return mkBV(w, 0)
			}
			return mkBV(w, a.U>>n)
		}
	}
	if c.C && c.U == 0 {
		return a
	}
	var f string
	switch op {
	case "<<":
		f = "bvshl"
	case ">>":
		if signed {
			f = "bvashr"
		} else {
			f = "bvlshr"
		}
	}
	return symBV(w, "("+f+" "+a.smt()+" "+c.smt()+")")
}

func bvCmp(op string, a, b Term, signed bool) Term {
	if a.C && b.C {
		var r bool
		if signed {
			x, y := a.sval(), b.sval()
			switch op {
			case "<":
				r = x < y
			case "<=":
				r = x <= y
			case ">":
				r = x > y
			case ">=":
				r = x >= y
			}
		} else {
			x, y := a.U, b.U
			switch op {
			case "<":
				r = x < y
			case "<=":
				r = x <= y
			case ">":
				r = x > y
			case ">=":
				r = x >= y
			}
		}
		return mkBool(r)
	}
	var f string
	switch op {
	case "<":
		f = "lt"
	case "<=":
		f = "le"
	case ">":
		f = "gt"
	case ">=":
		f = "ge"
	}
	if signed {
		f = "bvs" + f
	} else {
		f = "bvu" + f
	}
	return symBool("(" + f + " " + a.smt() + " " + b.smt() + ")")
}

func bvNeg(a Term) Term {
	if a.C {
		return mkBV(a.W, -a.U)
	}
	return symBV(a.W, "(bvneg "+a.E+")")
}

func bvNot(a Term) Term {
	if a.C {
		return mkBV(a.W, ^a.U)
	}
	return symBV(a.W, "(bvnot "+a.E+")")
}

// bvConv converts a to width w; srcSigned selects sign extension.
func bvConv(a Term, w int, srcSigned bool) Term {
	if a.W == w {
		return a
	}
	if a.C {
		if w > a.W && srcSigned {
			return mkBV(w, uint64(a.sval()))
		}
		return mkBV(w, a.U)
	}
	if w < a.W {
		return symBV(w, fmt.Sprintf("((_ extract %d 0) %s)", w-1, a.E))
	}
	if srcSigned {
		return symBV(w, fmt.Sprintf("((_ sign_extend %d) %s)", w-a.W, a.E))
	}
	return symBV(w, fmt.Sprintf("((_ zero_extend %d) %s)", w-a.W, a.E))
}

// ---------- strings ----------

func strConcat(a, b Term) Term {
	if a.C && b.C {
		return mkStr(a.Str + b.Str)
	}
	if (a.IsV || a.C) && (b.IsV || b.C) {
		av, bv := strToVec(a), strToVec(b)
		out := make([]Term, 0, len(av)+len(bv))
		out = append(out, av...)
		out = append(out, bv...)
		return vecStr(out)
	}
	if a.C && a.Str == "" {
		return b
	}
	if b.C && b.Str == "" {
		return a
	}
	flat := func(t Term) []Term {
		if len(t.Cat) > 0 {
			return t.Cat
		}
		return []Term{t}
	}
	var pieces []Term
	for _, p := range append(append([]Term{}, flat(a)...), flat(b)...) {
		if p.C && len(pieces) > 0 && pieces[len(pieces)-1].C {
			pieces[len(pieces)-1] = mkStr(pieces[len(pieces)-1].Str + p.Str)
			continue
		}
		pieces = append(pieces, p)
	}
	parts := make([]string, len(pieces))
	for i, p := range pieces {
		parts[i] = p.smt()
	}
	r := symStr("(str.++ " + strings.Join(parts, " ") + ")")
	r.Cat = pieces
	return r
}

func strHasPrefix(s, p Term) Term {
	if sb, ok := strConcreteBytes(s); ok {
		if pb, ok := strConcreteBytes(p); ok {
			return mkBool(strings.HasPrefix(string(sb), string(pb)))
		}
	}
	if (s.IsV || s.C) && (p.IsV || p.C) {
		sv, pv := strToVec(s), strToVec(p)
		if len(pv) > len(sv) {
			return mkBool(false)
		}
		var cs []Term
		for i := range pv {
			cs = append(cs, tEq(sv[i], pv[i]))
		}
		return tAnd(cs...)
	}
	return symBool("(str.prefixof " + p.smt() + " " + s.smt() + ")")
}

func strHasSuffix(s, p Term) Term {
	if sb, ok := strConcreteBytes(s); ok {
		if pb, ok := strConcreteBytes(p); ok {
			return mkBool(strings.HasSuffix(string(sb), string(pb)))
		}
	}
	return symBool("(str.suffixof " + p.smt() + " " + s.smt() + ")")
}

func strContains(s, p Term) Term {
	if sb, ok := strConcreteBytes(s); ok {
		if pb, ok := strConcreteBytes(p); ok {
			return mkBool(strings.Contains(string(sb), string(pb)))
		}
	}
	return symBool("(str.contains " + s.smt() + " " + p.smt() + ")")
}

func strLess(a, b Term) Term {
	if ab, ok := strConcreteBytes(a); ok {
		if bb, ok := strConcreteBytes(b); ok {
			return mkBool(string(ab) < string(bb))
		}
	}
	return symBool("(str.< " + a.smt() + " " + b.smt() + ")")
}

// strLen returns len(s) as a 64-bit BV.
func strLen(s Term) Term {
	if s.C {
		return mkBV(64, uint64(len(s.Str)))
	}
	if s.IsV {
		return mkBV(64, uint64(len(s.Vec)))
	}
	return symBV(64, "((_ int2bv 64) (str.len "+s.smt()+"))")
}

// strAfterPrefix returns s with a prefix of concrete length n removed.
func strAfterPrefix(s Term, n int) Term {
	if s.C {
		return mkStr(s.Str[n:])
	}
	if s.IsV {
		return vecStr(s.Vec[n:])
	}
	return symStr(fmt.Sprintf("(str.substr %s %d (- (str.len %s) %d))", s.smt(), n, s.smt(), n))
}

// ---------- ints (ghost clock) ----------

func intBin(op string, a, b Term) Term {
	if a.C && b.C {
		x, y := int64(a.U), int64(b.U)
		switch op {
		case "+":
			return mkInt(x + y)
		case "-":
			return mkInt(x - y)
		case "*":
			hi, _ := bits.Mul64(uint64(abs64(x)), uint64(abs64(y)))
			if hi == 0 {
				return mkInt(x * y)
			}
		}
	}
	return symInt("(" + op + " " + a.smt() + " " + b.smt() + ")")
}

func abs64(x int64) int64 {
	if x < 0 {
		return -x
	}
	return x
}

func intCmp(op string, a, b Term) Term {
	if a.C && b.C {
		x, y := int64(a.U), int64(b.U)
		switch op {
		case "<":
			return mkBool(x < y)
		case "<=":
			return mkBool(x <= y)
		case ">":
			return mkBool(x > y)
		case ">=":
			return mkBool(x >= y)
		}
	}
	return symBool("(" + op + " " + a.smt() + " " + b.smt() + ")")
}

// bvToInt: signed interpretation of a BV as Int.
func bvToInt(a Term, signed bool) Term {
	if a.C {
		if signed {
			return mkInt(a.sval())
		}
		return mkInt(int64(a.U))
	}
	if !signed {
		return symInt("(bv2nat " + a.E + ")")
	}
	w := a.W
	return symInt(fmt.Sprintf("(ite (bvslt %s %s) (- (bv2nat %s) %s) (bv2nat %s))", a.E, mkBV(w, 0).smt(), a.E, pow2(w), a.E))
}

func pow2(w int) string {
	if w == 64 {
		return "18446744073709551616"
	}
	return fmt.Sprintf("%d", uint64(1)<<uint(w))
}

func intToBV(a Term, w int) Term {
	if a.C {
		return mkBV(w, a.U)
	}
	return symBV(w, fmt.Sprintf("((_ int2bv %d) %s)", w, a.E))
}
