package main

func init() {
	c09 := findProp("C09")
	if c09 == nil {
		return
	}
	c09.Pkgs = append(c09.Pkgs, "client/setec")
	h := ch("verifHarnessC09Client", map[string]int{}, nil, []string{"end-transport", "end-read-error", "end-200", "end-304", "end-other"},
		"Client.GetIfChanged/Get/do: request shape (V=0 short-circuits to a plain get), gate headers, status -> (value | ErrValueNotChanged | ErrNotFound | ErrAccessDenied | other error) for every status code")
	h.Stubs["net/http.NewRequestWithContext"] = "verifStubNewRequest"
	h.Stubs["bytes.NewReader"] = "verifStubBytesNewReaderC09"
	h.Stubs["(net/http.Header).Set"] = "verifStubHeaderSetC09"
	h.Stubs["io.ReadAll"] = "verifStubReadAllC09"
	h.Stubs["bytes.TrimSpace"] = "verifStubTrimSpaceOpaque"
	h.NoNative = "the HTTP transport, request construction and body reading are stubs in this harness"
	c09.Harnesses = append(c09.Harnesses, h,
		ch("verifHarnessC09FileClient", map[string]int{"names": 2}, map[string]int{"names": 3}, []string{"end-absent", "end-same", "end-changed"}, "FileClient.GetIfChanged: not-changed iff the stored version equals V; absent -> not found"))
	c09.Bounds["client"] = "any status code (symbolic int), transport and body-read failures, well-formed or arbitrary response bytes"
}

func init() {
	// C08's "404 when the named secret or version does not exist" is the composition of the database's error class
	// (decided in the db package) and serveJSON's mapping of that class (decided in the server package).
	c08 := findProp("C08")
	if c08 == nil {
		return
	}
	c08.Pkgs = append(c08.Pkgs, "db")
	for _, n := range []string{"Activate", "DeleteVersion", "GetVersion", "Get", "Info"} {
		c08.Harnesses = append(c08.Harnesses, c02h("verifHarnessC02"+n, nil, "database leg of the status table: DB."+n+" reports a missing secret or version in the not-found class"))
	}
}

func init() {
	// C17's "a successful write is followed by one upload, a failed write by none" composes the backup loop (server package,
	// driven by the generation number) with the database's rule for that number (db package): it advances exactly when the
	// file was replaced.
	c17 := findProp("C17")
	if c17 == nil {
		return
	}
	c17.Pkgs = append(c17.Pkgs, "db")
	for _, n := range []string{"Put", "Activate", "DeleteVersion", "Delete"} {
		c17.Harnesses = append(c17.Harnesses, &HarnessSpec{Name: "verifHarnessC04" + n, Pkg: "db", Stubs: dbEnvStubs,
			Params: map[string]int{"secrets": 2, "versions": 2}, ThoroughParams: map[string]int{"secrets": 3, "versions": 3},
			ExpectReach: []string{"end-fault", "end-no-fault"}, NoNative: "file-system and tink are models (DESIGN §4.2/4.3); realising their faults natively needs ptrace fault injection",
			Desc: "database leg of change detection: after DB." + n + " the generation has advanced exactly when the file was replaced (a failing write does not look like a change, a replaced file always does)"})
	}
	c17.Bounds["database states (generation leg)"] = "2 / 3 secrets with 2 / 3 versions, any save fault"
}

func init() {
	// C09's "active version number is V at that moment ... never a non-active version" needs the decision and the fetch to be one
	// atomic step: the lock-set harness and the interleaving harness of the conditional get are its concurrency leg.
	c09 := findProp("C09")
	c14 := findProp("C14")
	if c09 == nil || c14 == nil {
		return
	}
	for _, h := range c14.Harnesses {
		if h.Name == "verifHarnessC14GetConditional" || h.Name == "verifHarnessC14InterleaveGetConditional" {
			hh := *h
			hh.Desc = "atomicity of the conditional get: " + h.Desc
			hh.DeadOK = map[string]string{"both-puts-retrievable": "obligation of the shared driver for a first request that is a put", "different-values-different-versions": "obligation of the shared driver for a first request that is a put"}
			c09.Harnesses = append(c09.Harnesses, &hh)
		}
	}
}

func init() {
	// C01 decides enforcement with ALLOW as an uninterpreted predicate (db package); what ALLOW means for a rule with several
	// patterns is decided on the real acl code: the acl leg of C01.
	c01 := findProp("C01")
	c07 := findProp("C07")
	if c01 == nil || c07 == nil {
		return
	}
	c01.Pkgs = append(c01.Pkgs, "acl")
	for _, h := range c07.Harnesses {
		if h.Name == "verifHarnessC07RuleReal" || h.Name == "verifHarnessC07Rules" {
			hh := *h
			hh.Desc = "acl leg of enforcement: " + h.Desc
			c01.Harnesses = append(c01.Harnesses, &hh)
		}
	}
}

func init() {
	// C14 names the HTTP handlers as well: they must be stateless apart from the database and counters.
	c14 := findProp("C14")
	if c14 == nil {
		return
	}
	c14.Pkgs = append(c14.Pkgs, "server")
	c14.Harnesses = append(c14.Harnesses, &HarnessSpec{Name: "verifHarnessC14HandlersStateless", Pkg: "server", Stubs: serverStubs, Params: map[string]int{},
		ExpectReach: []string{"end"}, NoNative: "net/http, WhoIs and the database are models in this harness",
		Desc: "two get requests of different clients overlap at the HTTP layer (the second is served while the first response is being written): each client receives its own version and bytes"})
	c14.Bounds["HTTP layer"] = "two overlapping get requests, the second served entirely inside the first one's response write"
}

func init() {
	// C19: "declared secrets ... are never dropped", and drops happen at a poll only: construction from a cache must keep every
	// valid cached entry's value and stamp whatever the expiry configuration (the construction harness has a symbolic expiry age,
	// clock and access stamps).
	c19 := findProp("C19")
	if c19 == nil {
		return
	}
	h := ch("verifHarnessC10NewStoreDoc", map[string]int{"names": 2, "fails": 1, "entrykinds": 2}, map[string]int{"names": 2, "fails": 2, "entrykinds": 3},
		[]string{"end-ok", "end-from-cache"}, "construction from a cache never drops a declared secret: cached value and access stamp are used as they are, for every expiry age, clock and stamp")
	h.DeadOK = map[string]string{"undecodable-cache-contributes-no-names": "obligation of the shared driver for arbitrary-bytes caches (C10/C13)", "undecodable-cache-ignored-as-a-whole": "obligation of the shared driver for arbitrary-bytes caches (C10/C13)"}
	c19.Harnesses = append(c19.Harnesses, h)
}
