package main

func init() {
	c09 := findProp("C09")
	if c09 == nil {
		return
	}
	c09.Pkgs = append(c09.Pkgs, "client/setec")
	h := ch("verifHarnessC09Client", map[string]int{}, nil, []string{"end-transport", "end-read-error", "end-200", "end-304", "end-other"},
		"Client.GetIfChanged/Get/do: request shape (V=0 short-circuits to a plain get), gate headers, status -> (value | ErrValueNotChanged | ErrNotFound | ErrAccessDenied | other error) for every status code")
	h.Stubs["net/http.NewRequestWithContext"] = "verifStubNewRequest"
	h.Stubs["bytes.NewReader"] = "verifStubBytesNewReaderC09"
	h.Stubs["(net/http.Header).Set"] = "verifStubHeaderSetC09"
	h.Stubs["io.ReadAll"] = "verifStubReadAllC09"
	h.Stubs["bytes.TrimSpace"] = "verifStubTrimSpaceOpaque"
	h.NoNative = "the HTTP transport, request construction and body reading are stubs in this harness"
	c09.Harnesses = append(c09.Harnesses, h,
		ch("verifHarnessC09FileClient", map[string]int{"names": 2}, map[string]int{"names": 3}, []string{"end-absent", "end-same", "end-changed"}, "FileClient.GetIfChanged: not-changed iff the stored version equals V; absent -> not found"))
	c09.Harnesses = append(c09.Harnesses, chNoNative(ch("verifHarnessC09FileClientLoad", map[string]int{"names": 2}, map[string]int{"names": 3}, []string{"end-absent", "end-present"},
		"FileClient through NewFileClient over any secrets file (version 0, empty values): V = 0 behaves as a plain get; served entries have version >= 1"),
		"the secrets file lives in the file-system model"))
	c09.Bounds["client"] = "any status code (symbolic int), transport and body-read failures, well-formed or arbitrary response bytes"
}

func init() {
	// C08's "404 when the named secret or version does not exist" is the composition of the database's error class
	// (decided in the db package) and serveJSON's mapping of that class (decided in the server package).
	c08 := findProp("C08")
	if c08 == nil {
		return
	}
	c08.Pkgs = append(c08.Pkgs, "db")
	for _, n := range []string{"Activate", "DeleteVersion", "GetVersion", "Get", "Info"} {
		c08.Harnesses = append(c08.Harnesses, c02h("verifHarnessC02"+n, nil, "database leg of the status table: DB."+n+" reports a missing secret or version in the not-found class"))
	}
}

func init() {
	// C17's "a successful write is followed by one upload, a failed write by none" composes the backup loop (server package,
	// driven by the generation number) with the database's rule for that number (db package): it advances exactly when the
	// file was replaced.
	c17 := findProp("C17")
	if c17 == nil {
		return
	}
	c17.Pkgs = append(c17.Pkgs, "db")
	for _, n := range []string{"Put", "Activate", "DeleteVersion", "Delete"} {
		c17.Harnesses = append(c17.Harnesses, &HarnessSpec{Name: "verifHarnessC04" + n, Pkg: "db", Stubs: dbEnvStubs,
			Params: map[string]int{"secrets": 2, "versions": 2}, ThoroughParams: map[string]int{"secrets": 3, "versions": 3},
			ExpectReach: []string{"end-fault", "end-no-fault"}, NoNative: "file-system and tink are models (DESIGN §4.2/4.3); realising their faults natively needs ptrace fault injection",
			Desc: "database leg of change detection: after DB." + n + " the generation has advanced exactly when the file was replaced (a failing write does not look like a change, a replaced file always does)"})
	}
	c17.Bounds["database states (generation leg)"] = "2 / 3 secrets with 2 / 3 versions, any save fault"
}

func init() {
	// C09's "active version number is V at that moment ... never a non-active version" needs the decision and the fetch to be one
	// atomic step: the lock-set harness and the interleaving harness of the conditional get are its concurrency leg.
	c09 := findProp("C09")
	c14 := findProp("C14")
	if c09 == nil || c14 == nil {
		return
	}
	for _, h := range c14.Harnesses {
		if h.Name == "verifHarnessC14GetConditional" || h.Name == "verifHarnessC14InterleaveGetConditional" {
			hh := *h
			hh.Desc = "atomicity of the conditional get: " + h.Desc
			hh.DeadOK = map[string]string{"both-puts-retrievable": "obligation of the shared driver for a first request that is a put", "different-values-different-versions": "obligation of the shared driver for a first request that is a put"}
			c09.Harnesses = append(c09.Harnesses, &hh)
		}
	}
}

func init() {
	// C01 decides enforcement with ALLOW as an uninterpreted predicate (db package); what ALLOW means for a rule with several
	// patterns is decided on the real acl code: the acl leg of C01.
	c01 := findProp("C01")
	c07 := findProp("C07")
	if c01 == nil || c07 == nil {
		return
	}
	c01.Pkgs = append(c01.Pkgs, "acl")
	for _, h := range c07.Harnesses {
		if h.Name == "verifHarnessC07RuleReal" || h.Name == "verifHarnessC07Rules" {
			hh := *h
			hh.Desc = "acl leg of enforcement: " + h.Desc
			c01.Harnesses = append(c01.Harnesses, &hh)
		}
	}
}

func init() {
	// C14 names the HTTP handlers as well: they must be stateless apart from the database and counters.
	c14 := findProp("C14")
	if c14 == nil {
		return
	}
	c14.Pkgs = append(c14.Pkgs, "server")
	c14.Harnesses = append(c14.Harnesses, &HarnessSpec{Name: "verifHarnessC14HandlersStateless", Pkg: "server", Stubs: serverStubs, Params: map[string]int{},
		ExpectReach: []string{"end"}, NoNative: "net/http, WhoIs and the database are models in this harness",
		Desc: "two get requests of different clients overlap at the HTTP layer (the second is served while the first response is being written): each client receives its own version and bytes"})
	c14.Bounds["HTTP layer"] = "two overlapping get requests, the second served entirely inside the first one's response write"
}

func init() {
	// C19: "declared secrets ... are never dropped", and drops happen at a poll only: construction from a cache must keep every
	// valid cached entry's value and stamp whatever the expiry configuration (the construction harness has a symbolic expiry age,
	// clock and access stamps).
	c19 := findProp("C19")
	if c19 == nil {
		return
	}
	h := ch("verifHarnessC10NewStoreDoc", map[string]int{"names": 2, "fails": 1, "entrykinds": 2}, map[string]int{"names": 2, "fails": 2, "entrykinds": 3},
		[]string{"end-ok", "end-from-cache"}, "construction from a cache never drops a declared secret: cached value and access stamp are used as they are, for every expiry age, clock and stamp")
	why := "obligation of the shared driver for arbitrary-bytes caches (C10/C13)"
	h.DeadOK = map[string]string{"undecodable-cache-contributes-no-names": why, "undecodable-cache-ignored-as-a-whole": why,
		"cache-that-is-not-exactly-one-json-document-contributes-no-names": why, "cache-that-is-not-exactly-one-json-document-is-ignored-as-a-whole": why}
	c19.Harnesses = append(c19.Harnesses, h)
}

func init() {
	// C11: "after a successful poll every known secret is at the service's version" as seen through EVERY handle: racing
	// lookups of one name followed by an install (registered under C12 as well).
	if c11 := findProp("C11"); c11 != nil {
		c11.Harnesses = append(c11.Harnesses, ch("verifHarnessC12RacingLookups", map[string]int{"names": 1}, map[string]int{"names": 2}, []string{"end"},
			"after racing lookups of one name, an install reaches every handle handed out for it"))
	}
	// C17: the first upload at start-up relies on a reopened database reporting a positive generation (0 is the backup
	// loop's "nothing uploaded yet"): decided on the real open path in the db package.
	if c17 := findProp("C17"); c17 != nil {
		if c03 := findProp("C03"); c03 != nil {
			for _, h := range c03.Harnesses {
				if h.Name == "verifHarnessC03Put" {
					hh := *h
					hh.Desc = "database leg of the start-up upload: a database reopened from its file reports generation 1, not the loop's sentinel 0 (" + h.Desc + ")"
					c17.Harnesses = append(c17.Harnesses, &hh)
				}
			}
		}
	}
}

const raceNote = "lock sets are ghost state of the engine; natively the race detector is the tool for this"

func init() {
	// "No data race occurs in the server, database or audit writer" (C14): the concurrent-writers harness of the audit writer
	// runs with lock-set tracking; the same harness decides C06's "never interleaved, truncated or lost".
	c06 := findProp("C06")
	c14 := findProp("C14")
	if c06 == nil || c14 == nil {
		return
	}
	for _, h := range c06.Harnesses {
		if h.Name == "verifHarnessC06ConcurrentWriters" {
			if h.ModelOnlyLabels == nil {
				h.ModelOnlyLabels = map[string]string{}
			}
			h.ModelOnlyLabels["data-race"] = raceNote
			hh := *h
			hh.Desc = "audit writer under two overlapping WriteEntries calls: no memory written by both without a common lock (lock-set tracking), every record intact"
			c14.Harnesses = append(c14.Harnesses, &hh)
		}
	}
}
