package main

func init() {
	c09 := findProp("C09")
	if c09 == nil {
		return
	}
	c09.Pkgs = append(c09.Pkgs, "client/setec")
	h := ch("verifHarnessC09Client", map[string]int{}, nil, []string{"end-transport", "end-read-error", "end-200", "end-304", "end-other"},
		"Client.GetIfChanged/Get/do: request shape (V=0 short-circuits to a plain get), gate headers, status -> (value | ErrValueNotChanged | ErrNotFound | ErrAccessDenied | other error) for every status code")
	h.Stubs["net/http.NewRequestWithContext"] = "verifStubNewRequest"
	h.Stubs["bytes.NewReader"] = "verifStubBytesNewReaderC09"
	h.Stubs["(net/http.Header).Set"] = "verifStubHeaderSetC09"
	h.Stubs["io.ReadAll"] = "verifStubReadAllC09"
	h.Stubs["bytes.TrimSpace"] = "verifStubTrimSpaceOpaque"
	h.NoNative = "the HTTP transport, request construction and body reading are stubs in this harness"
	c09.Harnesses = append(c09.Harnesses, h,
		ch("verifHarnessC09FileClient", map[string]int{"names": 2}, map[string]int{"names": 3}, []string{"end-absent", "end-same", "end-changed"}, "FileClient.GetIfChanged: not-changed iff the stored version equals V; absent -> not found"))
	c09.Bounds["client"] = "any status code (symbolic int), transport and body-read failures, well-formed or arbitrary response bytes"
}
