package main

import (
	"fmt"
	"go/types"
	"os"
	"path/filepath"
	"sort"
	"strings"

	"golang.org/x/tools/go/packages"
	"golang.org/x/tools/go/ssa"
	"golang.org/x/tools/go/ssa/ssautil"
)

const repoDir = "/repo"
const repoMod = "github.com/tailscale/setec"

var verifDir = "/verif"

// Loaded is the SSA program of /repo's current working tree plus the overlaid harness files.
type Loaded struct {
	prog            *ssa.Program
	pkgs            map[string]*ssa.Package // by repo-relative dir ("db", "client/setec", ...)
	errorType       types.Type
	errorStringType types.Type
	overlayFiles    map[string]string // virtual path -> real path (for replay overlays)
	loadSeconds     float64
}

// harnessDirs: repo-relative package dir -> harness source dir under /verif/harness
func harnessOverlay(dirs []string) (map[string][]byte, map[string]string, error) {
	ov := map[string][]byte{}
	real := map[string]string{}
	tmpls, _ := filepath.Glob(filepath.Join(verifDir, "harness", "*.go.tmpl"))
	if len(tmpls) == 0 {
		return nil, nil, fmt.Errorf("no harness templates")
	}
	for _, d := range dirs {
		hd := filepath.Join(verifDir, "harness", strings.ReplaceAll(d, "/", "_"))
		ents, err := os.ReadDir(hd)
		if err != nil {
			return nil, nil, fmt.Errorf("harness dir %s: %w", hd, err)
		}
		pkgName := ""
		for _, e := range ents {
			if !strings.HasSuffix(e.Name(), ".go") {
				continue
			}
			src, err := os.ReadFile(filepath.Join(hd, e.Name()))
			if err != nil {
				return nil, nil, err
			}
			if pkgName == "" {
				for _, line := range strings.Split(string(src), "\n") {
					if strings.HasPrefix(line, "package ") {
						pkgName = strings.TrimSpace(strings.TrimPrefix(line, "package "))
						break
					}
				}
			}
			v := filepath.Join(repoDir, d, "zz_verif_"+e.Name())
			ov[v] = src
			real[v] = filepath.Join(hd, e.Name())
		}
		if pkgName == "" {
			return nil, nil, fmt.Errorf("no harness files in %s", hd)
		}
		for _, t := range tmpls {
			src, err := os.ReadFile(t)
			if err != nil {
				return nil, nil, err
			}
			base := strings.TrimSuffix(filepath.Base(t), ".go.tmpl")
			v := filepath.Join(repoDir, d, "zz_verif_tmpl_"+base+".go")
			ov[v] = []byte(strings.Replace(string(src), "package PKGNAME", "package "+pkgName, 1))
			real[v] = "tmpl:" + pkgName + ":" + base
		}
	}
	return ov, real, nil
}

func loadRepo(dirs []string) (*Loaded, error) {
	ov, real, err := harnessOverlay(dirs)
	if err != nil {
		return nil, err
	}
	env := append(os.Environ(), "GOFLAGS=-mod=mod", "GOPROXY=off")
	cfg := &packages.Config{Mode: packages.LoadAllSyntax, Dir: repoDir, Env: env, Overlay: ov}
	var pats []string
	for _, d := range dirs {
		pats = append(pats, "./"+d)
	}
	pkgs, err := packages.Load(cfg, pats...)
	if err != nil {
		return nil, err
	}
	var errs []string
	packages.Visit(pkgs, nil, func(p *packages.Package) {
		for _, e := range p.Errors {
			if strings.HasPrefix(p.PkgPath, repoMod) {
				errs = append(errs, e.Error())
			}
		}
	})
	if len(errs) > 0 {
		sort.Strings(errs)
		return nil, fmt.Errorf("type errors loading /repo with harness overlay:\n%s", strings.Join(errs, "\n"))
	}
	prog, spkgs := ssautil.AllPackages(pkgs, ssa.InstantiateGenerics)
	L := &Loaded{prog: prog, pkgs: map[string]*ssa.Package{}, overlayFiles: real}
	for i, p := range pkgs {
		if spkgs[i] == nil {
			return nil, fmt.Errorf("no SSA package for %s", p.PkgPath)
		}
		rel := strings.TrimPrefix(strings.TrimPrefix(p.PkgPath, repoMod), "/")
		L.pkgs[rel] = spkgs[i]
		spkgs[i].Build()
	}
	// also build all repo packages that were loaded as dependencies
	for _, sp := range prog.AllPackages() {
		if strings.HasPrefix(sp.Pkg.Path(), repoMod) {
			sp.Build()
		}
	}
	L.errorType = types.Universe.Lookup("error").Type()
	ep := prog.ImportedPackage("errors")
	if ep == nil {
		return nil, fmt.Errorf("package errors not loaded")
	}
	ep.Build()
	L.errorStringType = ep.Type("errorString").Type()
	return L, nil
}

func (L *Loaded) isHarnessPkg(p *ssa.Package) bool {
	for _, hp := range L.pkgs {
		if hp == p {
			return true
		}
	}
	return false
}

func (L *Loaded) harnessFunc(pkgDir, name string) *ssa.Function {
	p := L.pkgs[pkgDir]
	if p == nil {
		return nil
	}
	return p.Func(name)
}

// interpretInit: packages whose init function is executed (concretely) on first global access.
// eagerInit: packages whose initialiser runs as part of its importers' initialisers (Go's order). All other packages
// with an interpretable initialiser are initialised lazily, the first time one of their package-level variables is
// touched: equivalent for initialisers that only fill their own tables, and it keeps every path from paying for the
// initialisers of the whole import graph.
func (L *Loaded) eagerInit(p *ssa.Package) bool {
	path := p.Pkg.Path()
	if strings.HasPrefix(path, repoMod) {
		return true
	}
	switch path {
	case "tailscale.com/util/multierr", "encoding/base64", "unicode/utf8", "unicode", "strconv", "path", "encoding/hex":
		return true
	}
	return false
}

func (L *Loaded) interpretInit(p *ssa.Package) bool {
	path := p.Pkg.Path()
	if L.eagerInit(p) {
		return true
	}
	// every other package whose functions are interpreted gets its initialiser run as well: interpreting code over
	// zero-valued package tables (math/bits' de Bruijn tables, say) is silently wrong. A part of an initialiser that
	// cannot be modelled aborts the path (inconclusive), it is never skipped.
	if denyPkgs[path] {
		return false
	}
	if _, ok := initSkipOK[path]; ok {
		return false
	}
	for _, pre := range denyPrefixes {
		if strings.HasPrefix(path, pre) {
			return false
		}
	}
	// standard-library packages only (no dot in the first path element); other dependencies keep their explicit list above
	first := path
	if i := strings.Index(path, "/"); i >= 0 {
		first = path[:i]
	}
	return !strings.Contains(first, ".")
}

// packages whose functions are interpreted but whose initialiser is not run, each with the reason this is harmless
var initSkipOK = map[string]string{
	"errors": "its only package-level state is errorType (reflectlite), used by the real errors.As; the engine has its own errors.As (go/types assignability over the Unwrap tree)",
}

var denyPrefixes = []string{"github.com/tink-crypto/", "github.com/aws/", "crypto/", "net/", "runtime/", "internal/", "google.golang.org/", "tailscale.com/client/", "tailscale.com/tsnet", "tailscale.com/metrics"}

var denyPkgs = map[string]bool{
	"encoding/json": true, "reflect": true, "internal/reflectlite": true, "os": true, "syscall": true,
	"runtime": true, "time": true, "context": true, "fmt": true, "log": true, "regexp": true,
	"regexp/syntax": true, "math/rand": true, "math/rand/v2": true, "expvar": true, "sync": true,
	"sync/atomic": true, "unsafe": true, "net/http": true, "net/netip": true,
	"golang.org/x/sync/singleflight": true, "internal/bytealg": true, "os/signal": true,
	"path/filepath": true, "html/template": true, "text/template": true, "embed": true, "net": true,
	"crypto/rand": true, "internal/poll": true, "bufio": true,
}

func (L *Loaded) denyInterpret(fn *ssa.Function) bool {
	p := fn.Pkg
	if p == nil && fn.Origin() != nil {
		p = fn.Origin().Pkg
	}
	if p == nil {
		return false // synthetic wrappers, bound methods
	}
	path := p.Pkg.Path()
	if allowFns[fn.String()] {
		return false
	}
	if denyPkgs[path] {
		return true
	}
	for _, pre := range denyPrefixes {
		if strings.HasPrefix(path, pre) {
			return true
		}
	}
	return false
}

// plain-data methods of otherwise uninterpreted packages (error values the file-system model hands out)
var allowFns = map[string]bool{
	"(*os.LinkError).Error": true, "(*os.LinkError).Unwrap": true,
	"(*os.SyscallError).Error": true, "(*os.SyscallError).Unwrap": true,
}
