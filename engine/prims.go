package main

import (
	"fmt"
	"go/types"
	"sort"
	"strings"
	"time"

	"golang.org/x/tools/go/ssa"
)

type primFn func(in *Interp, fn *ssa.Function, args []Value) Value

var prims map[string]primFn

func init() {
	prims = map[string]primFn{
		"nondetBool": pNondetBool,
		"nondetU8":   func(in *Interp, fn *ssa.Function, a []Value) Value { return in.freshBV(tagOf(a[0]), 8) },
		"nondetU32":  func(in *Interp, fn *ssa.Function, a []Value) Value { return in.freshBV(tagOf(a[0]), 32) },
		"nondetU64":  func(in *Interp, fn *ssa.Function, a []Value) Value { return in.freshBV(tagOf(a[0]), 64) },
		"nondetI64":  func(in *Interp, fn *ssa.Function, a []Value) Value { return in.freshBV(tagOf(a[0]), 64) },
		"nondetInt":  func(in *Interp, fn *ssa.Function, a []Value) Value { return in.freshBV(tagOf(a[0]), 64) },
		"nondetMathI64": func(in *Interp, fn *ssa.Function, a []Value) Value {
			t := in.freshInt(tagOf(a[0]))
			in.assume(tAnd(intCmp(">=", t, symInt("(- 9223372036854775808)")), intCmp("<=", t, symInt("9223372036854775807"))))
			return t
		},
		"nondetString": func(in *Interp, fn *ssa.Function, a []Value) Value { return in.freshStr(tagOf(a[0])) },
		"nondetBytes":  pNondetBytes,
		"nondetSeq":    pNondetSeq,
		"nondetChoice": pNondetChoice,
		"assume":       pAssume,
		"assert":       pAssert,
		"reach":        pReach,
		"and":          func(in *Interp, fn *ssa.Function, a []Value) Value { return tAnd(termList(a[0])...) },
		"or":           func(in *Interp, fn *ssa.Function, a []Value) Value { return tOr(termList(a[0])...) },
		"implies":      func(in *Interp, fn *ssa.Function, a []Value) Value { return tImplies(a[0].(Term), a[1].(Term)) },
		"not":          func(in *Interp, fn *ssa.Function, a []Value) Value { return tNot(a[0].(Term)) },
		"iteU32": func(in *Interp, fn *ssa.Function, a []Value) Value {
			return tIte(a[0].(Term), a[1].(Term), a[2].(Term))
		},
		"iteU64": func(in *Interp, fn *ssa.Function, a []Value) Value {
			return tIte(a[0].(Term), a[1].(Term), a[2].(Term))
		},
		"iteInt": func(in *Interp, fn *ssa.Function, a []Value) Value {
			return tIte(a[0].(Term), a[1].(Term), a[2].(Term))
		},
		"iteStr": func(in *Interp, fn *ssa.Function, a []Value) Value {
			return tIte(a[0].(Term), a[1].(Term), a[2].(Term))
		},
		"mapPutIf": pMapPutIf,
		"mapHas":   pMapHas,
		"mapSlots": func(in *Interp, fn *ssa.Function, a []Value) Value {
			return mkBV(64, uint64(len(a[0].(*MapObj).Slots)))
		},
		"mapCap": func(in *Interp, fn *ssa.Function, a []Value) Value {
			a[0].(*MapObj).Cap = int(a[1].(Term).U)
			return nil
		},
		"snapshot":    func(in *Interp, fn *ssa.Function, a []Value) Value { return in.snapshot(a[0], map[interface{}]Value{}) },
		"deepEq":      func(in *Interp, fn *ssa.Function, a []Value) Value { return in.deepEq(a[0], a[1], 0) },
		"bytesEq":     func(in *Interp, fn *ssa.Function, a []Value) Value { return in.bytesEq(a[0].(Slice), a[1].(Slice)) },
		"mutate":      pMutate,
		"sameBacking": pSameBacking,
		"param":       pParam,
		"guardBy":     pGuardBy,
		"freeze":      pFreeze,
		"held":        pHeld,
		"lockCount": func(in *Interp, fn *ssa.Function, a []Value) Value {
			return mkBV(64, uint64(in.lockCount[in.mutexCell(a[0])]))
		},
		"illFormedIf": pIllFormedIf,
		"raceBegin":   pRaceBegin,
		"raceEnd":     pRaceEnd,
		"concurrently": func(in *Interp, fn *ssa.Function, a []Value) Value {
			if in.heldAny() {
				in.pendingConc = append(in.pendingConc, a[0])
				in.trace = append(in.trace, "concurrent task waits for a lock held by the caller")
				return nil
			}
			prev := in.raceActor
			in.raceActor = 1
			in.call(a[0], nil)
			in.raceActor = prev
			return nil
		},
		"joinConcurrent": func(in *Interp, fn *ssa.Function, a []Value) Value {
			p := in.pendingConc
			in.pendingConc = nil
			for _, f := range p {
				prev := in.raceActor
				in.raceActor = 1
				in.call(f, nil)
				in.raceActor = prev
			}
			return nil
		},
		"notHeld":     func(in *Interp, fn *ssa.Function, a []Value) Value { return tNot(pHeld(in, fn, a).(Term)) },
		"ghostLog":    pGhostLog,
		"ghostCount":  pGhostCount,
		"ghostSet":    func(in *Interp, fn *ssa.Function, a []Value) Value { in.ghost[tagOf(a[0])] = a[1]; return nil },
		"ghostGetInt": pGhostGetInt,
		"blobMake":    pBlobMake,
		"blobOpen":    pBlobOpen,
		"blobIs":      pBlobIs,
		"envChan":     pEnvChan,
		"envChanDyn": func(in *Interp, fn *ssa.Function, a []Value) Value {
			return &ChanObj{Env: tagOf(a[0]), EnvReady: a[1], EnvTake: a[2], ID: in.newID()}
		},
		"mapReads":  func(in *Interp, fn *ssa.Function, a []Value) Value { return mkBV(64, uint64(a[0].(*MapObj).ReadCnt)) },
		"mapWrites": func(in *Interp, fn *ssa.Function, a []Value) Value { return mkBV(64, uint64(a[0].(*MapObj).WriteCnt)) },
		"opaqueErr": func(in *Interp, fn *ssa.Function, a []Value) Value {
			return in.makeErrorString(mkStr("opaque:" + tagOf(a[0])))
		},
		"spawnedCount": func(in *Interp, fn *ssa.Function, a []Value) Value { return mkBV(64, uint64(len(in.spawned))) },
		"runSpawned":   pRunSpawned,
		"symbolic":     func(in *Interp, fn *ssa.Function, a []Value) Value { return mkBool(true) },
		"mathSubSat":   pMathSubSat,
		"mapAll":       pMapAll,
		"mapAny":       pMapAny,
		"mapEachP": func(in *Interp, fn *ssa.Function, a []Value) Value {
			m, _ := a[0].(*MapObj)
			if m != nil {
				for _, s := range append([]*MapSlot{}, m.Slots...) {
					in.call(a[1], []Value{s.K, copyVal(s.V), s.P})
				}
			}
			return nil
		},
		"blobPartBytes": func(in *Interp, fn *ssa.Function, a []Value) Value {
			if it, ok := a[0].(Iface); ok {
				if s, ok := it.V.(Slice); ok {
					return s
				}
			}
			if s, ok := a[0].(Slice); ok { // parts of engine-made blobs (bytes.Buffer concatenations)
				return s
			}
			return Slice{Nil: true}
		},
		"endsWithNewline": pEndsWithNewline,
		"fragmentOf":      pFragmentOf,
		"blobPartU64": func(in *Interp, fn *ssa.Function, a []Value) Value {
			if it, ok := a[0].(Iface); ok {
				if t, ok := it.V.(Term); ok && t.S == SBV {
					return bvConv(t, 64, false)
				}
			}
			return mkBV(64, 0)
		},
		"verifPeekBool":   func(in *Interp, fn *ssa.Function, a []Value) Value { return Tuple{mkBool(false), mkBool(false)} },
		"verifPeekString": func(in *Interp, fn *ssa.Function, a []Value) Value { return mkStr("") },
		"jsonBlobAs":      pJSONBlobAs,
		"guardOff":        func(in *Interp, fn *ssa.Function, a []Value) Value { in.guardsOff = true; return nil },
		"jsonBlobKeys":    pJSONBlobKeys,
		"blobClearTerms":  pBlobClearTerms,
		"timeAgeNS": func(in *Interp, fn *ssa.Function, a []Value) Value {
			now, acc := a[0].(Term), a[1].(Term)
			toNS := func(sec Term) Term {
				return intBin("*", intBin("+", toInt(sec, true), mkInt(unixToYear1Sec)), mkInt(1000000000))
			}
			last := tIte(tEq(toInt(acc, true), mkInt(0)), mkInt(0), toNS(acc))
			return in.satToI64(intBin("-", toNS(now), last))
		},
		"replayHint": func(in *Interp, fn *ssa.Function, a []Value) Value {
			if t := a[0].(Term); !t.C {
				in.hints = append(in.hints, t.E)
			}
			return nil
		},
		"jsonClass": func(in *Interp, fn *ssa.Function, a []Value) Value { return in.jsonClass(a[0].(Slice)) },
		"noteTrace": func(in *Interp, fn *ssa.Function, a []Value) Value {
			in.trace = append(in.trace, tagOf(a[0]))
			return nil
		},
	}
}

func tagOf(v Value) string {
	t, ok := v.(Term)
	if !ok || !t.C {
		panic(abort("primitive tag must be a constant string"))
	}
	return strings.ReplaceAll(t.Str, "|", "_")
}

func termList(v Value) []Term {
	s := v.(Slice)
	out := make([]Term, len(s.A))
	for i, e := range s.A {
		out[i] = e.(Term)
	}
	return out
}

func pNondetBool(in *Interp, fn *ssa.Function, a []Value) Value {
	return in.freshBool(tagOf(a[0]))
}

// nondetBytes(tag, maxLen): byte vector with forked concrete length 0..maxLen and symbolic bytes.
func pNondetBytes(in *Interp, fn *ssa.Function, a []Value) Value {
	tag := tagOf(a[0])
	maxLen := int(a[1].(Term).U)
	ln := in.freshBV(tag+".len", 64)
	in.assume(bvCmp("<=", ln, mkBV(64, uint64(maxLen)), false))
	conds := make([]Term, maxLen+1)
	for i := range conds {
		conds[i] = tEq(ln, mkBV(64, uint64(i)))
	}
	n := in.choose(conds)
	vals := make([]Value, n)
	for i := range vals {
		vals[i] = in.freshBV(fmt.Sprintf("%s[%d]", tag, i), 8)
	}
	return Slice{A: vals}
}

// nondetSeq(tag): []byte of arbitrary (symbolic) length held as one SMT String.
func pNondetSeq(in *Interp, fn *ssa.Function, a []Value) Value {
	t := in.freshStr(tagOf(a[0]))
	return Slice{Seq: &SeqObj{T: t, Len: strLen(t)}}
}

// nondetChoice(tag, n): forks over 0..n-1, returns a concrete int.
func pNondetChoice(in *Interp, fn *ssa.Function, a []Value) Value {
	tag := tagOf(a[0])
	n := int(a[1].(Term).U)
	v := in.freshBV(tag, 64)
	in.assume(bvCmp("<", v, mkBV(64, uint64(n)), false))
	conds := make([]Term, n)
	for i := range conds {
		conds[i] = tEq(v, mkBV(64, uint64(i)))
	}
	return mkBV(64, uint64(in.choose(conds)))
}

func pAssume(in *Interp, fn *ssa.Function, a []Value) Value {
	c := a[0].(Term)
	if !c.C && !in.sess.Quiet() {
		// vacuity guard: the assumption must be satisfiable under the path condition
		if in.sess.Check(c.E, "feas") == Unsat {
			panic(pathEnd{"assume-false"})
		}
	}
	in.assume(c)
	return nil
}

func pAssert(in *Interp, fn *ssa.Function, a []Value) Value {
	label := tagOf(a[0])
	c := a[1].(Term)
	in.checkAssert(label, c, "")
	return nil
}

func (in *Interp) checkAssert(label string, c Term, note string) {
	R := in.res
	if c.C {
		if c.B {
			R.noteAssert(in, label, "trivially-true", 0, 0)
			return
		}
		n0 := len(in.violations)
		in.reportViolation(label, mkBool(true), note)
		if len(in.violations) == n0 {
			panic(pathEnd{"infeasible"}) // the path condition turned out unsatisfiable (a branch kept on an unknown feasibility verdict)
		}
		panic(pathEnd{"violation"})
	}
	if in.sess.Quiet() {
		// inside the part shared with the previous path: this obligation was decided there
		R.noteAssert(in, label, "shared-prefix", 0, 0)
		in.assume(c)
		return
	}
	neg := tNot(c)
	t0 := time.Now()
	r, model := in.sess.CheckModel(neg.E, in.varNames(), "assert")
	dt := time.Since(t0)
	switch r {
	case Unsat:
		R.noteAssert(in, label, "unsat", len(neg.E), dt)
		if in.opts.CrossEvery > 0 && R.crossDue(in.opts.CrossEvery) {
			for _, other := range in.opts.CrossSolvers {
				cr := crossCheck(other, append([]string{}, in.sess.script...), neg.E, minInt(in.opts.TimeoutMS, 15000))
				if cr == Sat {
					R.crossDisagree(in, label, other)
				}
			}
		}
		in.assume(c)
	case Sat:
		R.noteAssert(in, label, "sat", len(neg.E), dt)
		in.classifyAndRecord(label, neg, model, note)
		// keep exploring the states of this path that do not violate the assertion
		if in.sess.Check(c.E, "feas") == Unsat {
			panic(pathEnd{"violation"})
		}
		in.assume(c)
	default:
		// fallback for arithmetic kernels: cvc5 with the integer encoding of bit-vectors, one shot on the whole path script
		if fr := crossCheck("cvc5-int", append([]string{}, in.sess.script...), neg.E, in.opts.TimeoutMS); fr == Unsat {
			R.noteAssert(in, label, "unsat", len(neg.E), time.Since(t0))
			R.noteFallback(label)
			in.assume(c)
			return
		}
		R.noteAssert(in, label, "unknown", len(neg.E), dt)
		R.addUnknown(in, label)
	}
}

func (in *Interp) varNames() []string {
	out := make([]string, len(in.vars))
	for i, v := range in.vars {
		out[i] = quoteSym(v.Name)
	}
	return out
}

// reportViolation: cond describes the violating states (true = the current path itself).
func (in *Interp) reportViolation(label string, cond Term, note string) {
	if in.sess.Quiet() {
		return // already reported by the path that shares this prefix
	}
	r, model := in.sess.CheckModel(exprOrTrue(cond), in.varNames(), "assert")
	if r == Unsat {
		return
	}
	if r == Unknown {
		in.res.addUnknown(in, label)
		return
	}
	// a listed finding is matched here as well (an obligation that is concretely false on this path)
	in.classifyAndRecord(label, symBool(exprOrTrue(cond)), model, note)
}

func (in *Interp) recordViolation(label string, model map[string]string, note string) {
	v := &Violation{Harness: in.spec.Name, Label: label, Decisions: append([]int{}, in.decisions...),
		Model: model, Vars: append([]varDecl{}, in.vars...), Trace: append([]string{}, in.trace...), Panic: note}
	in.violations = append(in.violations, v)
}

func pReach(in *Interp, fn *ssa.Function, a []Value) Value {
	label := tagOf(a[0])
	if in.sess.Quiet() {
		return nil
	}
	// reachability witness: the path condition at this point is satisfiable
	if in.sess.Check("", "feas") == Sat {
		in.reached[label] = true
	}
	return nil
}

// mapPutIf(m, k, v, p): add a slot with symbolic presence p, assuming the key is
// distinct from every other present key.
func pMapPutIf(in *Interp, fn *ssa.Function, a []Value) Value {
	m := a[0].(*MapObj)
	k, v, p := a[1], a[2], a[3].(Term)
	for _, s := range m.Slots {
		in.assume(tImplies(tAnd(p, s.P), tNot(in.valEq(s.K, k))))
	}
	m.Slots = append(m.Slots, &MapSlot{K: k, V: copyVal(v), P: p})
	return nil
}

func pMapHas(in *Interp, fn *ssa.Function, a []Value) Value {
	m, _ := a[0].(*MapObj)
	if m == nil {
		return mkBool(false)
	}
	var cs []Term
	for _, s := range m.Slots {
		cs = append(cs, in.hitCond(s, a[1]))
	}
	return tOr(cs...)
}

func pMutate(in *Interp, fn *ssa.Function, a []Value) Value {
	s := a[0].(Slice)
	if s.Seq != nil {
		nt := in.freshStr("mutated")
		in.assume(tNot(tEq(nt, s.Seq.T)))
		s.Seq.T = nt
		s.Seq.Len = strLen(nt)
		return nil
	}
	for i := range s.A {
		old := s.A[i].(Term)
		nv := in.freshBV("mutated", 8)
		in.assume(tNot(tEq(nv, old)))
		in.onStore(&s.A[i])
		s.A[i] = nv
	}
	return nil
}

func pSameBacking(in *Interp, fn *ssa.Function, a []Value) Value {
	x, y := a[0].(Slice), a[1].(Slice)
	if x.Seq != nil || y.Seq != nil {
		return mkBool(x.Seq != nil && x.Seq == y.Seq)
	}
	if cap(x.A) == 0 || cap(y.A) == 0 {
		return mkBool(false)
	}
	// overlap of the two windows onto a shared array
	for i := range x.A {
		for j := range y.A {
			if &x.A[i] == &y.A[j] {
				return mkBool(true)
			}
		}
	}
	return mkBool(false)
}

func pParam(in *Interp, fn *ssa.Function, a []Value) Value {
	n := tagOf(a[0])
	v, ok := in.spec.Params[n]
	if !ok {
		panic(abort("param not set: " + n))
	}
	return mkBV(64, uint64(v))
}

func pGuardBy(in *Interp, fn *ssa.Function, a []Value) Value {
	mu := in.mutexCell(a[1])
	switch x := a[0].(type) {
	case *MapObj:
		x.Guard = mu
	case *Value:
		in.guardCells(x, mu)
	case Iface:
		switch y := x.V.(type) {
		case *MapObj:
			y.Guard = mu
		case *Value:
			in.guardCells(y, mu)
		}
	}
	return nil
}

func (in *Interp) guardCells(p *Value, mu *Value) {
	if p == nil {
		return
	}
	in.guard[p] = mu
	if s, ok := (*p).(Struct); ok {
		for i := range s {
			if &s[i] == mu {
				continue
			}
			in.guard[&s[i]] = mu
		}
	}
}

// mutexCell normalises a *sync.Mutex (or a pointer to a struct embedding one first) to a cell key.
func (in *Interp) mutexCell(v Value) *Value {
	if it, ok := v.(Iface); ok {
		v = it.V
	}
	p, ok := v.(*Value)
	if !ok || p == nil {
		panic(abort("mutexCell: not a pointer"))
	}
	return p
}

func pFreeze(in *Interp, fn *ssa.Function, a []Value) Value {
	s := a[0].(Slice)
	why := tagOf(a[1])
	for i := range s.A {
		in.frozen[&s.A[i]] = why
	}
	return nil
}

func pHeld(in *Interp, fn *ssa.Function, a []Value) Value {
	return mkBool(in.heldLocks[in.mutexCell(a[0])])
}

func pGhostLog(in *Interp, fn *ssa.Function, a []Value) Value {
	tag := tagOf(a[0])
	k := "count:" + tag
	c, _ := in.ghost[k].(Term)
	if c.S != SBV {
		c = mkBV(64, 0)
	}
	in.ghost[k] = bvBin("+", c, mkBV(64, 1), false)
	in.trace = append(in.trace, "event "+tag)
	return nil
}

func pGhostCount(in *Interp, fn *ssa.Function, a []Value) Value {
	c, ok := in.ghost["count:"+tagOf(a[0])].(Term)
	if !ok {
		return mkBV(64, 0)
	}
	return c
}

func pGhostGetInt(in *Interp, fn *ssa.Function, a []Value) Value {
	c, ok := in.ghost[tagOf(a[0])].(Term)
	if !ok {
		return mkBV(64, 0)
	}
	return c
}

func pEnvChan(in *Interp, fn *ssa.Function, a []Value) Value {
	return &ChanObj{Env: tagOf(a[0]), EnvV: a[1].(Term), ID: in.newID()}
}

func pRunSpawned(in *Interp, fn *ssa.Function, a []Value) Value {
	i := int(a[0].(Term).U)
	if i >= len(in.spawned) {
		panic(abort("runSpawned: no such goroutine"))
	}
	d := in.spawned[i]
	saved := in.cur
	in.call(d.fn, d.args)
	in.cur = saved
	return nil
}

// mathSubSat(a, b int64) int64: saturating a-b over mathematical integers (time.Time.Sub contract).
func pMathSubSat(in *Interp, fn *ssa.Function, a []Value) Value {
	x, y := toInt(a[0].(Term), true), toInt(a[1].(Term), true)
	d := intBin("-", x, y)
	return in.satToI64(d)
}

func (in *Interp) satToI64(d Term) Term {
	if d.C {
		return d
	}
	maxI, minI := "9223372036854775807", "(- 9223372036854775808)"
	e := fmt.Sprintf("(ite (> %s %s) %s (ite (< %s %s) %s %s))", d.E, maxI, maxI, d.E, minI, minI, d.E)
	return symInt(e)
}

// ---------- blobs ----------

func pBlobMake(in *Interp, fn *ssa.Function, a []Value) Value {
	kind := tagOf(a[0])
	parts := a[1].(Slice)
	b := &Blob{Kind: kind, ID: in.newID()}
	for _, p := range parts.A {
		b.Parts = append(b.Parts, in.snapshot(p, map[interface{}]Value{}))
	}
	return in.blobSlice(b)
}

func (in *Interp) blobSlice(b *Blob) Slice {
	ln := in.freshBV("bloblen", 64)
	in.assume(tAnd(bvCmp(">", ln, mkBV(64, 0), false), bvCmp("<", ln, mkBV(64, 1<<40), false)))
	return Slice{Seq: &SeqObj{Blob: b, Len: ln}}
}

// blobOpen(b, kind) (parts []any, ok bool)
func pBlobOpen(in *Interp, fn *ssa.Function, a []Value) Value {
	s := a[0].(Slice)
	kind := tagOf(a[1])
	if s.Seq == nil || s.Seq.Blob == nil || s.Seq.Blob.Kind != kind {
		return Tuple{Slice{Nil: true}, mkBool(false)}
	}
	parts := make([]Value, len(s.Seq.Blob.Parts))
	for i, p := range s.Seq.Blob.Parts {
		parts[i] = in.snapshot(p, map[interface{}]Value{})
	}
	return Tuple{Slice{A: parts}, mkBool(true)}
}

func pBlobIs(in *Interp, fn *ssa.Function, a []Value) Value {
	s := a[0].(Slice)
	kind := tagOf(a[1])
	return mkBool(s.Seq != nil && s.Seq.Blob != nil && s.Seq.Blob.Kind == kind)
}

// ---------- snapshot / deepEq ----------

func (in *Interp) snapshot(v Value, seen map[interface{}]Value) Value {
	switch x := v.(type) {
	case Term, Float, TimeV, nil, NilFunc, *ssa.Function, *Closure, *Native, *ChanObj, *Opaque:
		return v
	case Struct:
		c := make(Struct, len(x))
		for i := range x {
			c[i] = in.snapshot(x[i], seen)
		}
		return c
	case Array:
		c := make(Array, len(x))
		for i := range x {
			c[i] = in.snapshot(x[i], seen)
		}
		return c
	case Tuple:
		c := make(Tuple, len(x))
		for i := range x {
			c[i] = in.snapshot(x[i], seen)
		}
		return c
	case *Value:
		if x == nil {
			return x
		}
		if c, ok := seen[x]; ok {
			return c
		}
		p := new(Value)
		seen[x] = p
		*p = in.snapshot(*x, seen)
		return p
	case Slice:
		if x.Seq != nil {
			return Slice{Seq: &SeqObj{T: x.Seq.T, Blob: x.Seq.Blob, Len: x.Seq.Len}}
		}
		if x.Nil {
			return x
		}
		c := make([]Value, len(x.A))
		for i := range x.A {
			c[i] = in.snapshot(x.A[i], seen)
		}
		return Slice{A: c}
	case *MapObj:
		if x == nil {
			return x
		}
		if c, ok := seen[x]; ok {
			return c
		}
		m := &MapObj{T: x.T, ID: in.newID()}
		seen[x] = m
		for _, s := range x.Slots {
			m.Slots = append(m.Slots, &MapSlot{K: in.snapshot(s.K, seen), V: in.snapshot(s.V, seen), P: s.P})
		}
		return m
	case Iface:
		return Iface{T: x.T, V: in.snapshot(x.V, seen)}
	}
	panic(abort(fmt.Sprintf("snapshot %T", v)))
}

func (in *Interp) bytesEq(a, b Slice) Term {
	if a.Seq != nil || b.Seq != nil {
		if a.Seq != nil && b.Seq != nil {
			if a.Seq.Blob != nil || b.Seq.Blob != nil {
				if a.Seq.Blob == nil || b.Seq.Blob == nil {
					return mkBool(false)
				}
				return in.blobEq(a.Seq.Blob, b.Seq.Blob)
			}
			return tEq(a.Seq.T, b.Seq.T)
		}
		// seq vs cells
		var seq *SeqObj
		var cells Slice
		if a.Seq != nil {
			seq, cells = a.Seq, b
		} else {
			seq, cells = b.Seq, a
		}
		if seq.Blob != nil {
			return mkBool(false)
		}
		return tEq(seq.T, symOrConstStr(in.bytesToString(cells)))
	}
	if len(a.A) != len(b.A) {
		return mkBool(false)
	}
	var cs []Term
	for i := range a.A {
		cs = append(cs, tEq(a.A[i].(Term), b.A[i].(Term)))
	}
	return tAnd(cs...)
}

func symOrConstStr(t Term) Term {
	if t.IsV {
		return symStr(t.smt())
	}
	return t
}

func (in *Interp) blobEq(a, b *Blob) Term {
	if a == b {
		return mkBool(true)
	}
	if a.Kind != b.Kind || len(a.Parts) != len(b.Parts) {
		return mkBool(false)
	}
	var cs []Term
	for i := range a.Parts {
		cs = append(cs, in.deepEq(a.Parts[i], b.Parts[i], 0))
	}
	return tAnd(cs...)
}

// deepEq: structural equality as a Bool term (maps as slot sets, pointers by pointee).
func (in *Interp) deepEq(a, b Value, depth int) Term {
	if depth > 12 {
		panic(abort("deepEq: too deep (cyclic?)"))
	}
	switch x := a.(type) {
	case Term:
		y, ok := b.(Term)
		if !ok {
			return mkBool(false)
		}
		return tEq(x, y)
	case Float:
		y := b.(Float)
		return mkBool(x.C && y.C && x.V == y.V)
	case TimeV:
		return tEq(x.NS, b.(TimeV).NS)
	case nil:
		return mkBool(isNilValue(b))
	case Struct:
		y, ok := b.(Struct)
		if !ok || len(x) != len(y) {
			return mkBool(false)
		}
		var cs []Term
		for i := range x {
			cs = append(cs, in.deepEq(x[i], y[i], depth+1))
		}
		return tAnd(cs...)
	case Array:
		y := b.(Array)
		var cs []Term
		for i := range x {
			cs = append(cs, in.deepEq(x[i], y[i], depth+1))
		}
		return tAnd(cs...)
	case Tuple:
		y := b.(Tuple)
		var cs []Term
		for i := range x {
			cs = append(cs, in.deepEq(x[i], y[i], depth+1))
		}
		return tAnd(cs...)
	case *Value:
		y, ok := b.(*Value)
		if !ok {
			return mkBool(false)
		}
		if x == nil || y == nil {
			return mkBool(x == nil && y == nil)
		}
		if x == y {
			return mkBool(true)
		}
		return in.deepEq(*x, *y, depth+1)
	case Slice:
		y, ok := b.(Slice)
		if !ok {
			return mkBool(false)
		}
		if x.Seq != nil || y.Seq != nil || isByteSlice(x) || isByteSlice(y) {
			if (x.Nil || (x.Seq == nil && len(x.A) == 0)) && (y.Nil || (y.Seq == nil && len(y.A) == 0)) {
				return mkBool(true)
			}
			if x.Seq == nil && len(x.A) == 0 && y.Seq != nil && y.Seq.Blob == nil {
				return tEq(y.Seq.T, mkStr(""))
			}
			if y.Seq == nil && len(y.A) == 0 && x.Seq != nil && x.Seq.Blob == nil {
				return tEq(x.Seq.T, mkStr(""))
			}
			return in.bytesEq(x, y)
		}
		if len(x.A) != len(y.A) {
			return mkBool(false)
		}
		var cs []Term
		for i := range x.A {
			cs = append(cs, in.deepEq(x.A[i], y.A[i], depth+1))
		}
		return tAnd(cs...)
	case *MapObj:
		y, ok := b.(*MapObj)
		if !ok {
			return mkBool(false)
		}
		var xs, ys []*MapSlot
		if x != nil {
			xs = x.Slots
		}
		if y != nil {
			ys = y.Slots
		}
		sub := func(p, q []*MapSlot) Term {
			var cs []Term
			for _, s := range p {
				var alts []Term
				for _, t := range q {
					alts = append(alts, tAnd(t.P, in.valEq(s.K, t.K), in.deepEq(s.V, t.V, depth+1)))
				}
				cs = append(cs, tImplies(s.P, tOr(alts...)))
			}
			return tAnd(cs...)
		}
		return tAnd(sub(xs, ys), sub(ys, xs))
	case Iface:
		y, ok := b.(Iface)
		if !ok {
			return mkBool(false)
		}
		if x.T == nil || y.T == nil {
			return mkBool(x.T == nil && y.T == nil)
		}
		if !types.Identical(x.T, y.T) {
			return mkBool(false)
		}
		return in.deepEq(x.V, y.V, depth+1)
	case *Closure, *ssa.Function, *Native, NilFunc:
		return mkBool(isNilValue(a) == isNilValue(b))
	case *ChanObj:
		y, _ := b.(*ChanObj)
		return mkBool(x == y)
	case *Opaque:
		y, _ := b.(*Opaque)
		return mkBool(x == y)
	}
	panic(abort(fmt.Sprintf("deepEq %T", a)))
}

func isByteSlice(s Slice) bool {
	if s.Seq != nil {
		return true
	}
	if len(s.A) == 0 {
		return false
	}
	t, ok := s.A[0].(Term)
	return ok && t.S == SBV && t.W == 8
}

func sortedKeys(m map[string]int) []string {
	var ks []string
	for k := range m {
		ks = append(ks, k)
	}
	sort.Strings(ks)
	return ks
}

func pMapAll(in *Interp, fn *ssa.Function, a []Value) Value {
	m, _ := a[0].(*MapObj)
	if m == nil {
		return mkBool(true)
	}
	var cs []Term
	for _, s := range m.Slots {
		r := in.call(a[1], []Value{s.K, copyVal(s.V)}).(Term)
		cs = append(cs, tImplies(s.P, r))
	}
	return tAnd(cs...)
}

func pMapAny(in *Interp, fn *ssa.Function, a []Value) Value {
	m, _ := a[0].(*MapObj)
	if m == nil {
		return mkBool(false)
	}
	var cs []Term
	for _, s := range m.Slots {
		r := in.call(a[1], []Value{s.K, copyVal(s.V)}).(Term)
		cs = append(cs, tAnd(s.P, r))
	}
	return tOr(cs...)
}

// smallModel asks for a counterexample with small numbers and short strings (easier to replay through the public API).
func (in *Interp) smallModel(neg Term) map[string]string {
	var cs []string
	for _, v := range in.vars {
		q := quoteSym(v.Name)
		switch v.Sort {
		case "bv32":
			cs = append(cs, "(bvule "+q+" #x00000008)")
		case "str":
			cs = append(cs, "(<= (str.len "+q+") 3)")
			cs = append(cs, "(str.in_re "+q+" (re.* (re.range \" \" \"~\")))")
		}
	}
	if len(cs) == 0 && len(in.hints) == 0 {
		return nil
	}
	all := append(append([]string{}, cs...), in.hints...)
	if r, m := in.sess.CheckModel("(and "+neg.E+" "+strings.Join(all, " ")+")", in.varNames(), "assert"); r == Sat {
		return m
	}
	if len(in.hints) > 0 {
		if r, m := in.sess.CheckModel("(and "+neg.E+" "+strings.Join(in.hints, " ")+")", in.varNames(), "assert"); r == Sat {
			return m
		}
	}
	if len(cs) > 0 {
		if r, m := in.sess.CheckModel("(and "+neg.E+" "+strings.Join(cs, " ")+")", in.varNames(), "assert"); r == Sat {
			return m
		}
	}
	return nil
}

func (in *Interp) classifyAndRecord(label string, neg Term, model map[string]string, note string) {
	var known []KnownFinding
	for _, k := range in.opts.known {
		if k.Harness == in.spec.Name && k.Label == label {
			known = append(known, k)
		}
	}
	if len(known) > 0 {
		var excl []string
		for _, k := range known {
			excl = append(excl, "(not "+k.Classifier+")")
			if in.sess.Check("(and "+neg.E+" "+k.Classifier+")", "assert") == Sat {
				v := &Violation{Harness: in.spec.Name, Label: label, Known: k.Harness + "/" + k.Label}
				in.violations = append(in.violations, v)
			}
		}
		r, m2 := in.sess.CheckModel("(and "+neg.E+" "+strings.Join(excl, " ")+")", in.varNames(), "assert")
		switch r {
		case Unsat:
			return // every violating state is a listed finding
		case Sat:
			model = m2
			neg = symBool("(and " + neg.E + " " + strings.Join(excl, " ") + ")")
		default:
			in.res.addUnknown(in, label+" (known-finding classifier query)")
			return
		}
	}
	if sm := in.smallModel(neg); sm != nil {
		model = sm
	}
	in.recordViolation(label, model, note)
}

// jsonBlobAs(b, out *T) bool: open a JSON blob with the model's decoding rules.
func pJSONBlobAs(in *Interp, fn *ssa.Function, a []Value) Value {
	s := a[0].(Slice)
	if s.Seq == nil || s.Seq.Blob == nil || s.Seq.Blob.Kind != "JSON" {
		return mkBool(false)
	}
	pt := fn.Params[1].Type().(*types.Pointer)
	err := in.jsonUnmarshal(s, Iface{T: pt, V: a[1]})
	return mkBool(isNilValue(err))
}

func pJSONBlobKeys(in *Interp, fn *ssa.Function, a []Value) Value {
	s := a[0].(Slice)
	if s.Seq == nil || s.Seq.Blob == nil || s.Seq.Blob.Kind != "JSON" {
		return mkStr("?")
	}
	t := s.Seq.Blob.Type
	if p, ok := t.Underlying().(*types.Pointer); ok {
		t = p.Elem()
	}
	st, ok := t.Underlying().(*types.Struct)
	if !ok {
		return mkStr("?")
	}
	fs, e := jsonFields(st)
	if e != "" {
		return mkStr("?" + e)
	}
	var ks []string
	for _, f := range fs {
		ks = append(ks, f.key)
	}
	sort.Strings(ks)
	return mkStr(strings.Join(ks, ","))
}

// blobClearTerms counts symbolic string/bytes terms reachable in a document without crossing an AEAD node.
func pBlobClearTerms(in *Interp, fn *ssa.Function, a []Value) Value {
	n := 0
	var walk func(v Value, d int)
	walk = func(v Value, d int) {
		if d > 20 {
			return
		}
		switch x := v.(type) {
		case Term:
			if x.S == SStr && !x.C {
				n++
			}
		case Struct:
			for _, f := range x {
				walk(f, d+1)
			}
		case Array:
			for _, f := range x {
				walk(f, d+1)
			}
		case *Value:
			if x != nil {
				walk(*x, d+1)
			}
		case Iface:
			walk(x.V, d+1)
		case *MapObj:
			if x != nil {
				for _, s := range x.Slots {
					walk(s.K, d+1)
					walk(s.V, d+1)
				}
			}
		case Slice:
			if x.Seq != nil {
				if x.Seq.Blob != nil {
					if x.Seq.Blob.Kind == "AEAD" {
						return
					}
					for _, p := range x.Seq.Blob.Parts {
						walk(p, d+1)
					}
					return
				}
				if !x.Seq.T.C {
					n++
				}
				return
			}
			for _, e := range x.A {
				walk(e, d+1)
			}
		}
	}
	walk(a[0], 0)
	return mkBV(64, uint64(n))
}

func minInt(a, b int) int {
	if a < b {
		return a
	}
	return b
}

// niceStrings: prefer instances whose strings are printable ASCII (they survive real JSON/UTF-8 handling unchanged).
func (in *Interp) niceStrings() string {
	var cs []string
	for _, v := range in.vars {
		if v.Sort == "str" {
			cs = append(cs, "(str.in_re "+quoteSym(v.Name)+" (re.* (re.range \" \" \"~\")))")
		}
	}
	if len(cs) == 0 {
		return ""
	}
	return "(and true " + strings.Join(cs, " ") + ")"
}

// endsWithNewline(p): is the last byte of p a newline? Decided structurally for the byte strings the audit path
// produces (Encoder.Encode lines, fragments of them, concatenations, concrete bytes); anything else is unmodelled.
func pEndsWithNewline(in *Interp, fn *ssa.Function, a []Value) Value {
	s, ok := a[0].(Slice)
	if !ok || s.Nil {
		return mkBool(false)
	}
	if s.Seq != nil && s.Seq.Blob != nil {
		b := s.Seq.Blob
		switch b.Kind {
		case "JSON":
			return mkBool(b.Line)
		case "FRAG":
			return mkBool(false) // a proper prefix of a line: the newline is its last byte only
		case "CAT":
			if len(b.Parts) > 0 {
				return pEndsWithNewline(in, fn, []Value{b.Parts[len(b.Parts)-1]})
			}
		}
		panic(abort("endsWithNewline: blob kind " + b.Kind))
	}
	if s.Seq != nil {
		return strHasSuffix(s.Seq.T, mkStr("\n"))
	}
	if len(s.A) == 0 {
		return mkBool(false)
	}
	if t, ok := s.A[len(s.A)-1].(Term); ok {
		return tEq(bvConv(t, 8, false), mkBV(8, 10))
	}
	panic(abort("endsWithNewline: unexpected element"))
}

// fragmentOf(p): a non-empty proper prefix of p (what a short write leaves in the file).
func pFragmentOf(in *Interp, fn *ssa.Function, a []Value) Value {
	b := &Blob{Kind: "FRAG", Parts: []Value{a[0]}, ID: in.newID()}
	return in.blobSlice(b)
}
