package main

import (
	"bytes"
	"fmt"
	"go/types"
	"path"
	"path/filepath"
	"strings"

	"golang.org/x/tools/go/ssa"
)

var intrinsics map[string]primFn

func init() {
	intrinsics = map[string]primFn{
		"errors.Is":               iErrorsIs,
		"errors.As":               iErrorsAs,
		"fmt.Errorf":              iErrorf,
		"fmt.Sprintf":             iSprintf,
		"fmt.Sprint":              iSprintOpaque,
		"fmt.Sprintln":            iSprintOpaque,
		"fmt.Printf":              iNoop2,
		"fmt.Println":             iNoop2,
		"fmt.Print":               iNoop2,
		"fmt.Fprintf":             iNoop2,
		"fmt.Fprintln":            iNoop2,
		"fmt.Fprint":              iNoop2,
		"log.Printf":              iNoop,
		"log.Print":               iNoop,
		"log.Println":             iNoop,
		"strings.HasPrefix":       func(in *Interp, fn *ssa.Function, a []Value) Value { return strHasPrefix(a[0].(Term), a[1].(Term)) },
		"strings.HasSuffix":       func(in *Interp, fn *ssa.Function, a []Value) Value { return strHasSuffix(a[0].(Term), a[1].(Term)) },
		"strings.Contains":        func(in *Interp, fn *ssa.Function, a []Value) Value { return strContains(a[0].(Term), a[1].(Term)) },
		"strings.CutPrefix":       iCutPrefix,
		"strings.TrimPrefix":      iTrimPrefix,
		"strings.TrimSuffix":      iTrimSuffix,
		"strings.Compare":         iStrCompare,
		"cmp.Compare":             iCmpCompare,
		"strings.Split":           iStrSplit,
		"strings.Join":            iStrJoin,
		"strings.Cut":             iStrCut,
		"(*sync.Mutex).Lock":      iMutexLock,
		"(*sync.Mutex).Unlock":    iMutexUnlock,
		"(*sync.RWMutex).Lock":    iMutexLock,
		"(*sync.RWMutex).Unlock":  iMutexUnlock,
		"(*sync.RWMutex).RLock":   iMutexLock,
		"(*sync.RWMutex).RUnlock": iMutexUnlock,
		"time.Now":                iTimeNow,
		"(time.Time).UTC":         func(in *Interp, fn *ssa.Function, a []Value) Value { t := a[0].(TimeV); t.UTC = true; return t },
		"(time.Time).Unix":        iTimeUnixOf,
		"(time.Time).UnixMilli":   iTimeUnixMilliOf,
		"(time.Time).UnixNano": func(in *Interp, fn *ssa.Function, a []Value) Value {
			return intBin("-", a[0].(TimeV).NS, intBin("*", mkInt(unixToYear1Sec), mkInt(1000000000)))
		},
		"(time.Time).Sub": iTimeSub,
		"(time.Time).After": func(in *Interp, fn *ssa.Function, a []Value) Value {
			return intCmp(">", a[0].(TimeV).NS, a[1].(TimeV).NS)
		},
		"(time.Time).Before": func(in *Interp, fn *ssa.Function, a []Value) Value {
			return intCmp("<", a[0].(TimeV).NS, a[1].(TimeV).NS)
		},
		"(time.Time).Equal":                     func(in *Interp, fn *ssa.Function, a []Value) Value { return tEq(a[0].(TimeV).NS, a[1].(TimeV).NS) },
		"(time.Time).IsZero":                    func(in *Interp, fn *ssa.Function, a []Value) Value { return tEq(a[0].(TimeV).NS, mkInt(0)) },
		"(time.Time).Round":                     func(in *Interp, fn *ssa.Function, a []Value) Value { return a[0] },
		"time.Unix":                             iTimeUnix,
		"time.Since":                            iTimeSince,
		"(time.Duration).Round":                 func(in *Interp, fn *ssa.Function, a []Value) Value { return a[0] },
		"math/rand.Uint64":                      func(in *Interp, fn *ssa.Function, a []Value) Value { return in.freshBV("rand.Uint64", 64) },
		"math/rand.Intn":                        iRandIntn,
		"math/rand.Int63n":                      iRandIntn,
		"(*expvar.Int).Add":                     iNoop,
		"(*expvar.Int).Set":                     iNoop,
		"(*expvar.Float).Set":                   iNoop,
		"(*expvar.Float).Add":                   iNoop,
		"(*expvar.Map).Set":                     iNoop,
		"(*tailscale.com/metrics.LabelMap).Add": iNoop,
	}
	intrinsics["path/filepath.Dir"] = func(in *Interp, fn *ssa.Function, a []Value) Value { return mkStr(filepath.Dir(concStr(a[0]))) }
	intrinsics["path/filepath.Base"] = func(in *Interp, fn *ssa.Function, a []Value) Value { return mkStr(filepath.Base(concStr(a[0]))) }
	intrinsics["path/filepath.Join"] = func(in *Interp, fn *ssa.Function, a []Value) Value {
		var parts []string
		for _, e := range a[0].(Slice).A {
			parts = append(parts, concStr(e))
		}
		return mkStr(filepath.Join(parts...))
	}
	intrinsics["(*fmt.wrapError).Unwrap"] = func(in *Interp, fn *ssa.Function, a []Value) Value { return (*a[0].(*Value)).(Struct)[1] }
	intrinsics["(*fmt.wrapError).Error"] = func(in *Interp, fn *ssa.Function, a []Value) Value { return (*a[0].(*Value)).(Struct)[0] }
	intrinsics["(*fmt.wrapErrors).Unwrap"] = func(in *Interp, fn *ssa.Function, a []Value) Value { return (*a[0].(*Value)).(Struct)[1] }
	intrinsics["(*fmt.wrapErrors).Error"] = func(in *Interp, fn *ssa.Function, a []Value) Value { return (*a[0].(*Value)).(Struct)[0] }
	// errors.Join's Error() builds its text with unsafe.String: concatenate the members' texts with newlines instead
	intrinsics["(*errors.joinError).Error"] = func(in *Interp, fn *ssa.Function, a []Value) Value {
		errs := (*a[0].(*Value)).(Struct)[0].(Slice)
		out := mkStr("")
		for i, e := range errs.A {
			it := e.(Iface)
			m := in.L.prog.LookupMethod(it.T, nil, "Error")
			if m == nil {
				panic(abort("joinError member without Error method"))
			}
			t := in.call(m, []Value{it.V}).(Term)
			if i > 0 {
				out = strConcat(out, mkStr("\n"))
			}
			out = strConcat(out, t)
		}
		return out
	}
	intrinsics["engine:nilctx"] = func(in *Interp, fn *ssa.Function, a []Value) Value { return Iface{} }
	intrinsics["path.Join"] = func(in *Interp, fn *ssa.Function, a []Value) Value {
		var parts []string
		for _, e := range a[0].(Slice).A {
			parts = append(parts, concStr(e))
		}
		return mkStr(path.Join(parts...))
	}
	registerJSON()
	registerPureStr()
	registerBytesBuffer()
	registerSyncPool()
	registerRace()
}

// ---------- pure string -> string library functions on symbolic arguments ----------
//
// path.Clean and friends loop over the bytes of their argument; for a symbolic string they are modelled as an
// uninterpreted function constrained by (a) true facts: the real function's result on a dictionary of sample inputs
// (computed here by calling it), (b) a few laws, and (c) a replay hint that prefers dictionary inputs, so that a
// counterexample is realisable natively. Sound for detection of "the name used differs from the name checked": the
// solver may pick any input, but only facts that are true of the real function constrain the result.

type pureStrFn struct {
	smt  string
	f    func(string) string
	laws func(arg, res, fn string) []string
}

var pureStrDict = []string{"", "a", "b", "a/b", "b/a", "a/../b", "a//b", "./a", "a/", "/a", "a/./b", "../a", "A", "a ", " a", "_internal/a", "_internal/../a", "dev/../prod", "prod"}

var pureStrFns = map[string]*pureStrFn{
	"path.Clean": {smt: "pf_path_Clean", f: path.Clean, laws: func(arg, res, fn string) []string {
		return []string{"(not (= " + res + " \"\"))", "(= (" + fn + " " + res + ") " + res + ")", "(<= (str.len " + res + ") (ite (= " + arg + " \"\") 1 (str.len " + arg + ")))"}
	}},
	"path/filepath.Clean": {smt: "pf_filepath_Clean", f: filepath.Clean, laws: func(arg, res, fn string) []string {
		return []string{"(not (= " + res + " \"\"))", "(= (" + fn + " " + res + ") " + res + ")"}
	}},
	"strings.ToLower": {smt: "pf_strings_ToLower", f: strings.ToLower, laws: func(arg, res, fn string) []string {
		return []string{"(= (str.len " + res + ") (str.len " + arg + "))", "(= (" + fn + " " + res + ") " + res + ")"}
	}},
	"strings.ToUpper": {smt: "pf_strings_ToUpper", f: strings.ToUpper, laws: func(arg, res, fn string) []string {
		return []string{"(= (str.len " + res + ") (str.len " + arg + "))", "(= (" + fn + " " + res + ") " + res + ")"}
	}},
	"strings.TrimSpace": {smt: "pf_strings_TrimSpace", f: strings.TrimSpace, laws: func(arg, res, fn string) []string {
		return []string{"(str.contains " + arg + " " + res + ")", "(= (" + fn + " " + res + ") " + res + ")"}
	}},
}

func registerPureStr() {
	for name, pf := range pureStrFns {
		pf := pf
		intrinsics[name] = func(in *Interp, fn *ssa.Function, a []Value) Value {
			s := a[0].(Term)
			if bs, ok := strConcreteBytes(s); ok {
				return mkStr(pf.f(string(bs)))
			}
			if in.pureDeclared == nil {
				in.pureDeclared = map[string]bool{}
			}
			if !in.pureDeclared[pf.smt] {
				in.pureDeclared[pf.smt] = true
				in.sess.Cmd("(declare-fun " + pf.smt + " (String) String)")
				for _, d := range pureStrDict {
					in.sess.Cmd("(assert (= (" + pf.smt + " " + mkStr(d).smt() + ") " + mkStr(pf.f(d)).smt() + "))")
				}
			}
			arg := s.smt()
			res := "(" + pf.smt + " " + arg + ")"
			for _, l := range pf.laws(arg, res, pf.smt) {
				in.sess.Cmd("(assert " + l + ")")
			}
			var alts []string
			for _, d := range pureStrDict {
				alts = append(alts, "(= "+arg+" "+mkStr(d).smt()+")")
			}
			in.hints = append(in.hints, "(or "+strings.Join(alts, " ")+")")
			in.trace = append(in.trace, "pure string function "+name+" on a symbolic argument (uninterpreted, sample facts)")
			return symStr(res)
		}
	}
	intrinsics["strings.Index"] = func(in *Interp, fn *ssa.Function, a []Value) Value {
		s, sub := a[0].(Term), a[1].(Term)
		if sb, ok := strConcreteBytes(s); ok {
			if tb, ok := strConcreteBytes(sub); ok {
				return mkBV(64, uint64(int64(strings.Index(string(sb), string(tb)))))
			}
		}
		return symBV(64, "((_ int2bv 64) (str.indexof "+s.smt()+" "+sub.smt()+" 0))")
	}
}

func iNoop(in *Interp, fn *ssa.Function, a []Value) Value { return in.zeroResults(fn) }
func iNoop2(in *Interp, fn *ssa.Function, a []Value) Value {
	return in.zeroResults(fn)
}

// ---------- errors ----------

func (in *Interp) errorsPkgFunc(name string) *ssa.Function {
	p := in.L.prog.ImportedPackage("errors")
	p.Build()
	return p.Func(name)
}

func iErrorsIs(in *Interp, fn *ssa.Function, a []Value) Value {
	err, target := a[0].(Iface), a[1].(Iface)
	if err.T == nil || target.T == nil {
		return mkBool(err.T == nil && target.T == nil)
	}
	comparable := types.Comparable(target.T)
	return in.callFunction(in.errorsPkgFunc("is"), []Value{err, target, mkBool(comparable)}, nil)
}

// errors.As: the first error in err's tree (Unwrap() error / Unwrap() []error, depth first) whose dynamic type is
// assignable to what target points to is stored there. Custom As methods are not modelled (abort).
func iErrorsAs(in *Interp, fn *ssa.Function, a []Value) Value {
	err, target := a[0].(Iface), a[1].(Iface)
	if target.T == nil {
		panic(goPanic{msg: "errors: target cannot be nil"})
	}
	pt, ok := target.T.Underlying().(*types.Pointer)
	dst, _ := target.V.(*Value)
	if !ok || dst == nil {
		panic(goPanic{msg: "errors: target must be a non-nil pointer"})
	}
	elem := pt.Elem()
	_, elemIsIface := elem.Underlying().(*types.Interface)
	var walk func(e Iface, depth int) bool
	walk = func(e Iface, depth int) bool {
		if e.T == nil {
			return false
		}
		if depth > 16 {
			panic(abort("errors.As: error chain deeper than 16"))
		}
		if types.AssignableTo(e.T, elem) {
			if elemIsIface {
				*dst = Iface{T: e.T, V: e.V}
			} else {
				*dst = copyVal(e.V)
			}
			return true
		}
		ms := in.L.prog.MethodSets.MethodSet(e.T)
		if ms.Lookup(nil, "As") != nil {
			panic(abort("errors.As: custom As method of " + e.T.String()))
		}
		sel := ms.Lookup(nil, "Unwrap")
		if sel == nil {
			return false
		}
		m := in.L.prog.MethodValue(sel)
		if m == nil {
			return false
		}
		switch r := in.call(m, []Value{e.V}).(type) {
		case Iface:
			return walk(r, depth+1)
		case Slice:
			for _, x := range r.A {
				if xi, ok := x.(Iface); ok && walk(xi, depth+1) {
					return true
				}
			}
		}
		return false
	}
	return mkBool(walk(err, 0))
}

// countVerbs returns the verbs of a format string in order.
func fmtVerbs(format string) []byte {
	var out []byte
	for i := 0; i < len(format); i++ {
		if format[i] != '%' {
			continue
		}
		i++
		for i < len(format) && strings.ContainsRune("+-# 0123456789.[]*", rune(format[i])) {
			i++
		}
		if i < len(format) {
			if format[i] == '%' {
				continue
			}
			out = append(out, format[i])
		}
	}
	return out
}

func iErrorf(in *Interp, fn *ssa.Function, a []Value) Value {
	format := a[0].(Term)
	if !format.C {
		panic(abort("fmt.Errorf with symbolic format"))
	}
	args := a[1].(Slice).A
	verbs := fmtVerbs(format.Str)
	var wrapped []Value
	for i, v := range verbs {
		if v == 'w' && i < len(args) {
			if it, ok := args[i].(Iface); ok && it.T != nil && in.implements(it.T, in.L.errorType.Underlying().(*types.Interface)) {
				wrapped = append(wrapped, it)
			}
		}
	}
	msg := in.sprintf(format.Str, args, true)
	fp := in.L.prog.ImportedPackage("fmt")
	switch len(wrapped) {
	case 0:
		return in.makeErrorString(msg)
	case 1:
		t := fp.Type("wrapError").Type()
		p := new(Value)
		*p = Struct{msg, wrapped[0]}
		return Iface{T: types.NewPointer(t), V: p}
	default:
		t := fp.Type("wrapErrors").Type()
		p := new(Value)
		*p = Struct{msg, Slice{A: wrapped}}
		return Iface{T: types.NewPointer(t), V: p}
	}
}

// sprintf renders a format with engine values; symbolic strings are concatenated,
// symbolic integers under %d are concretised if the path condition fixes them,
// anything else becomes an opaque marker (messages are not semantically relevant).
func (in *Interp) sprintf(format string, args []Value, lenient bool) Term {
	res := mkStr("")
	argi := 0
	lit := func(s string) { res = strConcat(res, mkStr(s)) }
	for i := 0; i < len(format); i++ {
		c := format[i]
		if c != '%' {
			lit(string(c))
			continue
		}
		j := i + 1
		for j < len(format) && strings.ContainsRune("+-# 0123456789.", rune(format[j])) {
			j++
		}
		if j >= len(format) {
			break
		}
		verb := format[j]
		flags := format[i+1 : j]
		i = j
		if verb == '%' {
			lit("%")
			continue
		}
		if argi >= len(args) {
			lit("%!" + string(verb) + "(MISSING)")
			continue
		}
		arg := args[argi]
		argi++
		res = strConcat(res, in.fmtArg(verb, flags, arg, lenient))
	}
	return res
}

func (in *Interp) fmtArg(verb byte, flags string, arg Value, lenient bool) Term {
	it, ok := arg.(Iface)
	if !ok {
		return mkStr("?")
	}
	if it.T == nil {
		return mkStr("<nil>")
	}
	switch v := it.V.(type) {
	case Term:
		switch v.S {
		case SStr:
			if verb == 'q' {
				if v.C {
					return mkStr(fmt.Sprintf("%q", v.Str))
				}
				return strConcat(strConcat(mkStr(`"`), v), mkStr(`"`))
			}
			return v
		case SBool:
			if v.C {
				return mkStr(fmt.Sprint(v.B))
			}
			return mkStr("<bool>")
		case SBV:
			if !v.C {
				if lenient {
					return mkStr("<int>")
				}
				u := in.concretize(v, "fmt %d argument")
				v = mkBV(v.W, u)
			}
			// Stringer types (api.SecretVersion) print as decimal too
			if isSigned(it.T) {
				return mkStr(fmt.Sprintf("%"+flags+string(verbOrD(verb)), v.sval()))
			}
			return mkStr(fmt.Sprintf("%"+flags+string(verbOrD(verb)), v.U))
		}
	}
	// error values and Stringers print through their method (%v, %s, %w, %q)
	if verb == 'v' || verb == 's' || verb == 'w' || verb == 'q' {
		for _, mn := range []string{"Error", "String"} {
			sel := in.L.prog.MethodSets.MethodSet(it.T).Lookup(nil, mn)
			if sel == nil {
				continue
			}
			if sig, ok := sel.Type().(*types.Signature); !ok || sig.Params().Len() != 0 || sig.Results().Len() != 1 {
				continue
			}
			if m := in.L.prog.MethodValue(sel); m != nil {
				if t, ok := in.call(m, []Value{it.V}).(Term); ok && t.S == SStr {
					if verb == 'q' {
						return strConcat(strConcat(mkStr(`"`), t), mkStr(`"`))
					}
					return t
				}
			}
		}
	}
	return mkStr("<" + it.T.String() + ">")
}

func verbOrD(v byte) byte {
	switch v {
	case 'd', 'x', 'X', 'o', 'b', 'c':
		return v
	}
	return 'd'
}

func iSprintf(in *Interp, fn *ssa.Function, a []Value) Value {
	format := a[0].(Term)
	if !format.C {
		panic(abort("fmt.Sprintf with symbolic format"))
	}
	return in.sprintf(format.Str, a[1].(Slice).A, false)
}

func iSprintOpaque(in *Interp, fn *ssa.Function, a []Value) Value {
	return mkStr("<sprint>")
}

// ---------- strings ----------

func iCutPrefix(in *Interp, fn *ssa.Function, a []Value) Value {
	s, p := a[0].(Term), a[1].(Term)
	if !p.C {
		panic(abort("strings.CutPrefix with symbolic prefix"))
	}
	has := strHasPrefix(s, p)
	if in.branch(has) {
		return Tuple{strAfterPrefix(s, len(p.Str)), mkBool(true)}
	}
	return Tuple{s, mkBool(false)}
}

func iTrimPrefix(in *Interp, fn *ssa.Function, a []Value) Value {
	s, p := a[0].(Term), a[1].(Term)
	if s.C && p.C {
		return mkStr(strings.TrimPrefix(s.Str, p.Str))
	}
	if !p.C {
		panic(abort("strings.TrimPrefix with symbolic prefix"))
	}
	if in.branch(strHasPrefix(s, p)) {
		return strAfterPrefix(s, len(p.Str))
	}
	return s
}

func iTrimSuffix(in *Interp, fn *ssa.Function, a []Value) Value {
	s, p := a[0].(Term), a[1].(Term)
	if s.C && p.C {
		return mkStr(strings.TrimSuffix(s.Str, p.Str))
	}
	panic(abort("strings.TrimSuffix symbolic"))
}

func iStrCompare(in *Interp, fn *ssa.Function, a []Value) Value {
	x, y := a[0].(Term), a[1].(Term)
	return tIte(in.strLess(x, y), mkBV(64, ^uint64(0)), tIte(tEq(x, y), mkBV(64, 0), mkBV(64, 1)))
}

func iCmpCompare(in *Interp, fn *ssa.Function, a []Value) Value {
	x, y := a[0].(Term), a[1].(Term)
	if x.S == SStr {
		return iStrCompare(in, fn, a)
	}
	signed := isSigned(fn.Params[0].Type())
	return tIte(bvCmp("<", x, y, signed), mkBV(64, ^uint64(0)), tIte(tEq(x, y), mkBV(64, 0), mkBV(64, 1)))
}

func iStrSplit(in *Interp, fn *ssa.Function, a []Value) Value {
	s, sep := a[0].(Term), a[1].(Term)
	if s.C && sep.C {
		var out []Value
		for _, p := range strings.Split(s.Str, sep.Str) {
			out = append(out, mkStr(p))
		}
		return Slice{A: out}
	}
	// structured symbolic string: a ghost decomposition registered by the harness
	if parts, ok := in.splitOf[s.smt()+"\x00"+sep.smt()]; ok {
		out := make([]Value, len(parts))
		for i, p := range parts {
			out[i] = p
		}
		return Slice{A: out}
	}
	panic(abort("strings.Split on symbolic string without a registered decomposition"))
}

func iStrJoin(in *Interp, fn *ssa.Function, a []Value) Value {
	parts := a[0].(Slice).A
	sep := a[1].(Term)
	res := mkStr("")
	for i, p := range parts {
		if i > 0 {
			res = strConcat(res, sep)
		}
		res = strConcat(res, p.(Term))
	}
	return res
}

// ---------- sync ----------

func iMutexLock(in *Interp, fn *ssa.Function, a []Value) Value {
	mu := a[0].(*Value)
	if in.heldLocks[mu] {
		in.ghostViolation("deadlock", "mutex locked twice by the same goroutine: "+in.where())
	}
	for other, h := range in.heldLocks {
		if h {
			in.lockOrder[fmt.Sprintf("%p->%p", other, mu)] = true
		}
	}
	in.heldLocks[mu] = true
	in.lockCount[mu]++
	k := "count:db.lock"
	c, _ := in.ghost[k].(Term)
	if c.S != SBV {
		c = mkBV(64, 0)
	}
	in.ghost[k] = bvBin("+", c, mkBV(64, 1), false)
	return nil
}

func iMutexUnlock(in *Interp, fn *ssa.Function, a []Value) Value {
	mu := a[0].(*Value)
	if !in.heldLocks[mu] {
		panic(goPanic{msg: "fatal error: sync: unlock of unlocked mutex"})
	}
	in.heldLocks[mu] = false
	return nil
}

// ---------- time ----------

const unixToYear1Sec = 62135596800

func iTimeNow(in *Interp, fn *ssa.Function, a []Value) Value {
	return in.clockNow()
}

// clockNow: non-decreasing ghost clock, whole nanoseconds since year 1.
func (in *Interp) clockNow() TimeV {
	t := in.freshInt("clock")
	if last, ok := in.ghost["clock.last"].(Term); ok {
		in.assume(intCmp(">=", t, last))
	} else {
		in.assume(intCmp(">=", t, mkInt(0)))
	}
	in.ghost["clock.last"] = t
	return TimeV{NS: t}
}

func iTimeUnix(in *Interp, fn *ssa.Function, a []Value) Value {
	sec := toInt(a[0].(Term), true)
	nsec := toInt(a[1].(Term), true)
	ns := intBin("+", intBin("*", intBin("+", sec, mkInt(unixToYear1Sec)), mkInt(1000000000)), nsec)
	return TimeV{NS: ns}
}

func iTimeUnixOf(in *Interp, fn *ssa.Function, a []Value) Value {
	t := a[0].(TimeV)
	// floor(ns / 1e9) - unixToYear1Sec
	if t.NS.C {
		v := int64(t.NS.U)
		q := v / 1000000000
		if v%1000000000 < 0 {
			q--
		}
		return mkInt(q - unixToYear1Sec)
	}
	return symInt(fmt.Sprintf("(- (div %s 1000000000) %d)", t.NS.E, int64(unixToYear1Sec)))
}

func iTimeUnixMilliOf(in *Interp, fn *ssa.Function, a []Value) Value {
	t := a[0].(TimeV)
	if t.NS.C {
		return mkInt(int64(t.NS.U)/1000000 - unixToYear1Sec*1000)
	}
	return symInt(fmt.Sprintf("(- (div %s 1000000) %d)", t.NS.E, int64(unixToYear1Sec)*1000))
}

func iTimeSub(in *Interp, fn *ssa.Function, a []Value) Value {
	t, u := a[0].(TimeV), a[1].(TimeV)
	return in.satToI64(intBin("-", t.NS, u.NS))
}

func iTimeSince(in *Interp, fn *ssa.Function, a []Value) Value {
	now := in.clockNow()
	return in.satToI64(intBin("-", now.NS, a[0].(TimeV).NS))
}

func iRandIntn(in *Interp, fn *ssa.Function, a []Value) Value {
	n := a[0].(Term)
	if in.branch(bvCmp("<=", n, mkBV(64, 0), true)) {
		panic(goPanic{msg: "invalid argument to Intn"})
	}
	r := in.freshBV("rand.Intn", 64)
	in.assume(tAnd(bvCmp(">=", r, mkBV(64, 0), true), bvCmp("<", r, n, true)))
	return r
}

func concStr(v Value) string {
	t, ok := v.(Term)
	if !ok || !t.C || t.S != SStr {
		panic(abort("path function on a symbolic string"))
	}
	return t.Str
}

func iStrCut(in *Interp, fn *ssa.Function, a []Value) Value {
	s, sep := a[0].(Term), a[1].(Term)
	if s.C && sep.C {
		b, af, ok := strings.Cut(s.Str, sep.Str)
		return Tuple{mkStr(b), mkStr(af), mkBool(ok)}
	}
	if parts, ok := in.splitOf[s.smt()+"\x00"+sep.smt()]; ok {
		if len(parts) == 1 {
			return Tuple{s, mkStr(""), mkBool(false)}
		}
		after := mkStr("")
		for i, p := range parts[1:] {
			if i > 0 {
				after = strConcat(after, sep)
			}
			after = strConcat(after, p)
		}
		return Tuple{parts[0], after, mkBool(true)}
	}
	panic(abort("strings.Cut on symbolic string without a registered decomposition"))
}

// ---------- internal/bytealg (assembly in the real build) ----------

func init() {
	intrinsics["internal/bytealg.IndexByte"] = func(in *Interp, fn *ssa.Function, a []Value) Value {
		return in.bytealgIndexByte(a[0], a[1].(Term))
	}
	intrinsics["internal/bytealg.IndexByteString"] = func(in *Interp, fn *ssa.Function, a []Value) Value {
		return in.bytealgIndexByte(a[0], a[1].(Term))
	}
	intrinsics["internal/stringslite.IndexByte"] = func(in *Interp, fn *ssa.Function, a []Value) Value {
		return in.bytealgIndexByte(a[0], a[1].(Term))
	}
	intrinsics["internal/bytealg.Count"] = func(in *Interp, fn *ssa.Function, a []Value) Value {
		return in.bytealgCount(a[0], a[1].(Term))
	}
	intrinsics["internal/bytealg.CountString"] = func(in *Interp, fn *ssa.Function, a []Value) Value {
		return in.bytealgCount(a[0], a[1].(Term))
	}
}

func byteAsStr(c Term) Term {
	if c.C {
		return mkStr(string([]byte{byte(c.U)}))
	}
	return symStr("(str.from_code (bv2nat " + c.smt() + "))")
}

// index of the first byte equal to c, or -1
func (in *Interp) bytealgIndexByte(v Value, c Term) Value {
	c = bvConv(c, 8, false)
	switch x := v.(type) {
	case Term: // a string
		if bs, ok := strConcreteBytes(x); ok && c.C {
			return mkBV(64, uint64(int64(bytes.IndexByte(bs, byte(c.U)))))
		}
		return symBV(64, "((_ int2bv 64) (str.indexof "+x.smt()+" "+byteAsStr(c).smt()+" 0))")
	case Slice:
		if x.Nil {
			return mkBV(64, ^uint64(0))
		}
		if x.Seq != nil {
			if x.Seq.Blob != nil {
				panic(abort("bytealg.IndexByte on an opaque blob"))
			}
			return symBV(64, "((_ int2bv 64) (str.indexof "+x.Seq.T.smt()+" "+byteAsStr(c).smt()+" 0))")
		}
		res := mkBV(64, ^uint64(0))
		for i := len(x.A) - 1; i >= 0; i-- {
			e, ok := x.A[i].(Term)
			if !ok {
				panic(abort("bytealg.IndexByte: element is not a byte"))
			}
			res = tIte(tEq(bvConv(e, 8, false), c), mkBV(64, uint64(i)), res)
		}
		return res
	}
	panic(abort("bytealg.IndexByte: unexpected argument"))
}

// number of bytes equal to c
func (in *Interp) bytealgCount(v Value, c Term) Value {
	c = bvConv(c, 8, false)
	switch x := v.(type) {
	case Term:
		if bs, ok := strConcreteBytes(x); ok && c.C {
			return mkBV(64, uint64(bytes.Count(bs, []byte{byte(c.U)})))
		}
		if c.C {
			if parts, ok := in.splitOf[x.smt()+"\x00"+mkStr(string([]byte{byte(c.U)})).smt()]; ok {
				return mkBV(64, uint64(len(parts)-1)) // the registered decomposition at this separator
			}
		}
		panic(abort("bytealg.Count on a symbolic string"))
	case Slice:
		if x.Nil {
			return mkBV(64, 0)
		}
		if x.Seq != nil {
			panic(abort("bytealg.Count on a symbolic byte string"))
		}
		res := mkBV(64, 0)
		for _, ev := range x.A {
			e, ok := ev.(Term)
			if !ok {
				panic(abort("bytealg.Count: element is not a byte"))
			}
			res = bvBin("+", res, tIte(tEq(bvConv(e, 8, false), c), mkBV(64, 1), mkBV(64, 0)), false)
		}
		return res
	}
	panic(abort("bytealg.Count: unexpected argument"))
}

// strings.ReplaceAll: concrete → native; a string whose decomposition at `old` the harness registered (registerSplit)
// → the parts joined by `new` (keeps the pieces visible to the regexp bridge); otherwise SMT str.replace_all.
func init() {
	intrinsics["strings.ReplaceAll"] = func(in *Interp, fn *ssa.Function, a []Value) Value {
		s, old, nw := a[0].(Term), a[1].(Term), a[2].(Term)
		if sb, ok := strConcreteBytes(s); ok {
			if ob, ok := strConcreteBytes(old); ok {
				if nb, ok := strConcreteBytes(nw); ok {
					return mkStr(strings.ReplaceAll(string(sb), string(ob), string(nb)))
				}
			}
		}
		if parts, ok := in.splitOf[s.smt()+"\x00"+old.smt()]; ok {
			out := mkStr("")
			for i, p := range parts {
				if i > 0 {
					out = strConcat(out, nw)
				}
				out = strConcat(out, p)
			}
			return out
		}
		if ob, ok := strConcreteBytes(old); ok && len(ob) == 0 {
			panic(abort("strings.ReplaceAll with an empty old string on a symbolic string"))
		}
		return symStr("(str.replace_all " + s.smt() + " " + old.smt() + " " + nw.smt() + ")")
	}
}
