package main

import (
	"encoding/json"
	"fmt"
	"os"
	"path/filepath"
	"sort"
	"strings"
	"sync"
	"time"
)

type Property struct {
	ID          string
	Pkgs        []string
	Harnesses   []*HarnessSpec
	Assumptions []string
	Outside     []string
	Bounds      map[string]string
}

var propRegistry []*Property

func allProps() []*Property { return propRegistry }

func findProp(id string) *Property {
	for _, p := range propRegistry {
		if p.ID == id {
			return p
		}
	}
	return nil
}

func (p *Property) selected(opts *Options) []*HarnessSpec {
	var out []*HarnessSpec
	for _, h := range p.Harnesses {
		if opts.OnlyHarness != "" && h.Name != opts.OnlyHarness {
			continue
		}
		if h.Tiers == "thorough" && opts.Tier != "thorough" {
			continue
		}
		if h.Tiers == "quick" && opts.Tier != "quick" {
			continue
		}
		hh := *h
		hh.Prop = p.ID
		if opts.Tier == "thorough" && len(h.ThoroughParams) > 0 {
			hh.Params = map[string]int{}
			for k, v := range h.Params {
				hh.Params[k] = v
			}
			for k, v := range h.ThoroughParams {
				hh.Params[k] = v
			}
		}
		out = append(out, &hh)
	}
	return out
}

type KnownFinding struct {
	Property   string `json:"property"`
	Kind       string `json:"kind"` // "known" | "fixed"
	Harness    string `json:"harness"`
	Label      string `json:"label"`
	Classifier string `json:"classifier"` // SMT-LIB Bool over the harness's nondet variables
	What       string `json:"what"`
	Commit     string `json:"commit,omitempty"`
}

func loadKnownFindings() []KnownFinding {
	bs, err := os.ReadFile(filepath.Join(verifDir, "known_findings.json"))
	if err != nil {
		return nil
	}
	var doc struct {
		Findings []KnownFinding `json:"findings"`
	}
	if err := json.Unmarshal(bs, &doc); err != nil {
		fmt.Fprintln(os.Stderr, "known_findings.json:", err)
		return nil
	}
	return doc.Findings
}

func runProperty(p *Property, opts *Options, replay bool) int {
	t0 := time.Now()
	specs := p.selected(opts)
	if len(specs) == 0 {
		fmt.Fprintln(os.Stderr, "no harness selected")
		return 2
	}
	tl := time.Now()
	L, err := loadRepo(p.Pkgs)
	if err != nil {
		fmt.Fprintln(os.Stderr, "LOAD FAILED:", err)
		writeEvidence(p, opts, nil, nil, time.Since(t0), []string{"load failed: " + err.Error()}, 0)
		return 2
	}
	L.loadSeconds = time.Since(tl).Seconds()
	opts.known = nil
	for _, k := range loadKnownFindings() {
		if k.Property == p.ID && k.Kind == "known" {
			opts.known = append(opts.known, k)
		}
	}
	per := opts.Workers
	if per > 8 {
		per = 8
	}
	if per < 1 {
		per = 1
	}
	gSlots = make(chan struct{}, opts.Workers)
	results := make([]*HarnessResult, len(specs))
	var wg sync.WaitGroup
	for i, s := range specs {
		wg.Add(1)
		go func(i int, s *HarnessSpec) {
			defer wg.Done()
			results[i] = runHarness(L, s, opts, per)
		}(i, s)
	}
	wg.Wait()

	var problems []string
	var viols []*Violation
	knownHits := map[string]bool{}
	for _, R := range results {
		for _, m := range sortedStr(R.Aborts) {
			problems = append(problems, fmt.Sprintf("%s: unmodelled/abort ×%d: %s", R.Spec.Name, R.Aborts[m], m))
		}
		for _, m := range sortedStr(R.Unknowns) {
			problems = append(problems, fmt.Sprintf("%s: inconclusive ×%d: %s", R.Spec.Name, R.Unknowns[m], m))
		}
		if R.Truncated {
			problems = append(problems, fmt.Sprintf("%s: path budget exhausted", R.Spec.Name))
		}
		for _, l := range R.Spec.ExpectReach {
			if R.Reached[l] == 0 {
				problems = append(problems, fmt.Sprintf("%s: reachability witness %q never reached (vacuous harness?)", R.Spec.Name, l))
			}
		}
		problems = append(problems, R.CrossDis...)
		for _, v := range R.Violations {
			if v.Known != "" {
				knownHits[v.Known] = true
				continue
			}
			viols = append(viols, v)
		}
		if opts.Verbose || true {
			fmt.Printf("harness %-34s paths=%-5d decisions=%-6d outcomes=%v asserts=%d viol=%d wall=%.1fs\n", R.Spec.Name, R.Paths, R.Decisions,
				R.Outcomes, countAsserts(R), len(R.Violations), R.Wall.Seconds())
		}
	}
	// vacuity guard: an assertion written in a harness (entry, its driver, their closures) that no harness of this
	// property ever evaluated is a dead obligation
	evaluated := map[string]bool{}
	anyViol := false
	for _, R := range results {
		for l := range R.Asserts {
			evaluated[l] = true
		}
		if len(R.Violations) > 0 || len(R.Aborts) > 0 {
			anyViol = true
		}
	}
	if !anyViol && opts.OnlyHarness == "" {
		for _, R := range results {
			for _, l := range R.deadAsserts(L.prog.Fset) {
				if _, ok := R.Spec.DeadOK[l]; ok || evaluated[l] {
					continue
				}
				R.DeadAsserts = append(R.DeadAsserts, l)
				problems = append(problems, fmt.Sprintf("%s: assertion %q is written in the harness but was never evaluated on any path of any harness of this property (vacuous obligation?)", R.Spec.Name, l))
			}
		}
	}
	// deduplicate violations by harness+label (keep the first, shortest decision list)
	sort.SliceStable(viols, func(i, j int) bool { return len(viols[i].Decisions) < len(viols[j].Decisions) })
	seen := map[string]bool{}
	var uniq []*Violation
	for _, v := range viols {
		k := v.Harness + "/" + v.Label
		if seen[k] {
			continue
		}
		seen[k] = true
		uniq = append(uniq, v)
	}
	replays := 0
	outDir := filepath.Join(verifDir, "out", p.ID)
	if len(uniq) > 0 {
		os.RemoveAll(outDir)
		os.MkdirAll(outDir, 0755)
	}
	rc := 0
	for i, v := range uniq {
		dir := filepath.Join(outDir, fmt.Sprintf("%d", i))
		os.MkdirAll(dir, 0755)
		spec := findSpec(specs, v.Harness)
		writeModel(dir, v, spec)
		v.ReplayDir = dir
		if replay {
			v.Replay = replayViolation(L, p, spec, v, dir)
			replays++
			if why, ok := spec.ModelOnlyLabels[v.Label]; ok && strings.HasPrefix(v.Replay, "not-reproduced") {
				v.Replay = "model-only (" + why + "; native run: " + v.Replay + ")"
			}
		} else {
			v.Replay = "skipped"
		}
		switch {
		case strings.HasPrefix(v.Replay, "reproduced"), strings.HasPrefix(v.Replay, "model-only"), v.Replay == "skipped":
			fmt.Printf("VIOLATION property=%s replay=%s\n", p.ID, dir)
			fmt.Printf("  harness=%s assertion=%s replay=%s\n", v.Harness, v.Label, v.Replay)
			if v.Panic != "" {
				fmt.Printf("  note: %s\n", v.Panic)
			}
			fmt.Printf("  model: %s\n", modelSummary(v))
			rc = 1
		default:
			problems = append(problems, fmt.Sprintf("%s/%s: counterexample did not reproduce natively (%s) — engine or stub mismatch, see %s", v.Harness, v.Label, v.Replay, dir))
		}
	}
	// translator validation on sampled witness instances (only meaningful when no violation was found)
	if replay && rc == 0 {
		byPkg := map[string][]*Violation{}
		for _, R := range results {
			byPkg[R.Spec.Pkg] = append(byPkg[R.Spec.Pkg], R.Witnesses...)
		}
		for pkg, ws := range byPkg {
			n, probs := validateWitnesses(pkg, ws, specs)
			replays += n
			problems = append(problems, probs...)
		}
	}
	for _, k := range opts.known {
		id := k.Harness + "/" + k.Label
		if knownHits[id] {
			fmt.Printf("KNOWN-FINDING: property=%s %s\n", p.ID, k.What)
		}
	}
	if rc == 0 && len(problems) > 0 {
		rc = 2
	}
	for _, pr := range problems {
		fmt.Println("INCONCLUSIVE:", pr)
	}
	writeEvidence(p, opts, specs, results, time.Since(t0), problems, replays)
	return rc
}

func findSpec(specs []*HarnessSpec, name string) *HarnessSpec {
	for _, s := range specs {
		if s.Name == name {
			return s
		}
	}
	return nil
}

func countAsserts(R *HarnessResult) int {
	n := 0
	for _, m := range R.Asserts {
		n += m["unsat"] + m["trivially-true"]
	}
	return n
}

func maxInt(a, b int) int {
	if a > b {
		return a
	}
	return b
}

func modelSummary(v *Violation) string {
	var parts []string
	for _, d := range v.Vars {
		val, ok := v.Model[quoteSym(d.Name)]
		if !ok {
			continue
		}
		if len(val) > 40 {
			val = val[:40] + "…"
		}
		parts = append(parts, d.Name+"="+val)
		if len(parts) >= 24 {
			parts = append(parts, "…")
			break
		}
	}
	return strings.Join(parts, " ")
}

// writeModel stores the counterexample for replay.
func writeModel(dir string, v *Violation, spec *HarnessSpec) {
	type mv struct {
		Sort string      `json:"sort"`
		Val  interface{} `json:"val"`
	}
	model := map[string]mv{}
	for _, d := range v.Vars {
		raw, ok := v.Model[quoteSym(d.Name)]
		if !ok {
			continue
		}
		switch {
		case d.Sort == "bool":
			model[d.Name] = mv{"bool", raw == "true"}
		case d.Sort == "str":
			rs := decodeSMTString(raw)
			arr := make([]int, len(rs))
			for i, r := range rs {
				arr[i] = int(r)
			}
			model[d.Name] = mv{"str", arr}
		case d.Sort == "int":
			model[d.Name] = mv{"int", raw}
		default:
			u, _ := decodeBV(raw)
			model[d.Name] = mv{d.Sort, fmt.Sprintf("%d", u)}
		}
	}
	doc := map[string]interface{}{
		"harness":   v.Harness,
		"assertion": v.Label,
		"decisions": v.Decisions,
		"model":     model,
		"trace":     v.Trace,
		"note":      v.Panic,
	}
	if spec != nil {
		doc["params"] = spec.Params
		doc["package"] = spec.Pkg
		doc["property"] = spec.Prop
	}
	bs, _ := json.MarshalIndent(doc, "", " ")
	os.WriteFile(filepath.Join(dir, "model.json"), bs, 0644)
}

// ---------- evidence ----------

func writeEvidence(p *Property, opts *Options, specs []*HarnessSpec, results []*HarnessResult, wall time.Duration, problems []string, replays int) {
	states, transitions, violations := 0, 0, 0
	var samples []interface{}
	funcs := map[string]interface{}{}
	stubs := map[string]int{}
	reach := map[string]int{}
	harn := []interface{}{}
	assertsTotal, trivial := 0, 0
	unwindFails := 0
	for _, R := range results {
		if R == nil {
			continue
		}
		states += R.Paths
		transitions += R.Decisions
		violations += len(R.Violations)
		unwindFails += R.Outcomes["unwind"]
		for i, s := range R.Samples {
			if i%maxInt(1, len(R.Samples)/6) == 0 && len(samples) < 40 {
				samples = append(samples, s)
			}
		}
		for f, n := range R.Funcs {
			funcs[f] = map[string]interface{}{"ssa_instructions": n, "at": R.FuncPos[f]}
		}
		for s, n := range R.Stubs {
			stubs[s] += n
		}
		for l, n := range R.Reached {
			reach[R.Spec.Name+":"+l] = n
		}
		al := map[string]interface{}{}
		for l, m := range R.Asserts {
			al[l] = m
			assertsTotal += m["unsat"]
			trivial += m["trivially-true"]
		}
		harn = append(harn, map[string]interface{}{
			"name": R.Spec.Name, "package": R.Spec.Pkg, "description": R.Spec.Desc, "paths": R.Paths, "fork_decisions": R.Decisions,
			"outcomes": R.Outcomes, "assertions": al, "params": R.Spec.Params, "unwind": R.Spec.Unwind, "ssa_steps": R.Steps,
			"wall_s": R.Wall.Seconds(), "feasibility_unknown_branches_kept": R.FeasUnknown, "decided_by_fallback_cvc5_bv_as_int": R.Fallbacks, "primary_solver": firstNonEmpty(R.Spec.Solver, opts.Solver),
		})
	}
	if len(samples) == 0 {
		samples = append(samples, map[string]string{"note": "no solver-decided obligation on this run"})
	}
	if states == 0 {
		states = 1
	}
	if transitions == 0 {
		transitions = 1
	}
	cov := map[string]interface{}{
		"states":                        states,
		"transitions":                   transitions,
		"traces_validated_against_impl": replays,
		"samples":                       samples,
		"exhaustive":                    len(problems) == 0,
		"explanation": "states = symbolic paths completed (each covers every input satisfying its path condition); transitions = fork decisions taken; " +
			"each assertion on each path is one SMT query pc ∧ ¬assertion that must be unsat",
		"harnesses":                harn,
		"functions_encoded":        funcs,
		"stubs_used":               stubs,
		"bounds":                   p.Bounds,
		"assertion_queries_unsat":  assertsTotal,
		"assertions_constant_true": trivial,
		"queries": map[string]int64{"feasibility": gStats.Feasibility, "assertion": gStats.Assertion, "sat": gStats.Sat, "unsat": gStats.Unsat,
			"unknown": gStats.Unknown, "solver_errors": gStats.Errors, "cross_checks": gStats.CrossChecks},
		"solver_time_s":              map[string]float64{opts.Solver: float64(gStats.TimeNS) / 1e9, "cross(" + strings.Join(opts.CrossSolvers, ",") + ")": float64(gStats.CrossTimeNS) / 1e9},
		"cross_solver_disagreements": gStats.CrossDis,
		"reach_witnesses":            reach,
		"unwinding_failures":         unwindFails,
		"outside_claim":              p.Outside,
		"inconclusive":               problems,
		"source_tree":                "encoding regenerated from /repo working tree on this run (go/packages + go/ssa, overlay harness)",
	}
	if p.Assumptions == nil {
		p.Assumptions = []string{}
	}
	if p.Outside == nil {
		p.Outside = []string{}
	}
	ev := map[string]interface{}{
		"property_id": p.ID,
		"tier":        opts.Tier,
		"seed":        opts.Seed,
		"level":       "model_checking",
		"coverage":    cov,
		"assumptions": p.Assumptions,
		"wall_s":      wall.Seconds(),
		"violations":  violations,
	}
	bs, _ := json.MarshalIndent(ev, "", " ")
	if p.ID == "SELF" { // the conformance suite is not a property: its record stays with the scratch output
		os.MkdirAll(filepath.Join(verifDir, "out", "SELF"), 0755)
		os.WriteFile(filepath.Join(verifDir, "out", "SELF", "evidence.json"), bs, 0644)
		return
	}
	evDir := filepath.Join(verifDir, "evidence")
	if d := os.Getenv("VERIF_SEED_EVIDENCE_DIR"); d != "" {
		// set only by seed_eval.sh / seed_recheck.sh: a run against a deliberately broken tree keeps its record with the
		// seed instead of replacing the evidence of the unchanged tree
		evDir = d
	}
	os.MkdirAll(evDir, 0755)
	os.WriteFile(filepath.Join(evDir, p.ID+".json"), bs, 0644)
}

func firstNonEmpty(a, b string) string {
	if a != "" {
		return a
	}
	return b
}
