package main

import (
	"fmt"
	"regexp/syntax"
	"strings"
	"unicode/utf8"

	"golang.org/x/tools/go/ssa"
)

// Bridge to Go's regexp (DESIGN §7 C07): the pattern source reaching
// regexp.MustCompile is a concatenation of concrete text and QuoteMeta results
// of symbolic strings. Quoted atoms are replaced by private-use placeholder
// runes, the REAL regexp/syntax.Parse is called natively on the concrete
// source, and the resulting AST is translated to an SMT-LIB regular expression
// with (str.to_re p_i) at placeholder i.

const placeholderBase = 0xE000

func init() {
	intrinsics["regexp.QuoteMeta"] = iQuoteMeta
	intrinsics["regexp.MustCompile"] = iMustCompile
	intrinsics["regexp.Compile"] = iRegexpCompile
	intrinsics["(*regexp.Regexp).MatchString"] = iMatchString
}

func iQuoteMeta(in *Interp, fn *ssa.Function, a []Value) Value {
	s := a[0].(Term)
	if s.C {
		return mkStr(quoteMetaNative(s.Str))
	}
	q := in.freshStr("quotemeta")
	in.quotedOf[q.E] = s
	return q
}

func quoteMetaNative(s string) string {
	const special = `\.+*?()|[]{}^$`
	var b strings.Builder
	for i := 0; i < len(s); i++ {
		if strings.IndexByte(special, s[i]) >= 0 {
			b.WriteByte('\\')
		}
		b.WriteByte(s[i])
	}
	return b.String()
}

// candidates tried for a raw (unquoted) symbolic fragment reaching the regexp compiler
var rawCandidates = []string{"", "a", ".", "a.b", "+", "(", "[", "\\", "a+", "x|y", "^", "$", "\\E", "\\E.\\Q", "\\Q"}

func (in *Interp) compileRegex(src Term) (Value, string) {
	pieces := src.Cat
	if src.C {
		pieces = []Term{src}
	} else if len(pieces) == 0 {
		pieces = []Term{src}
	}
	var sb strings.Builder
	var atoms []Term
	for _, p := range pieces {
		if p.C {
			sb.WriteString(p.Str)
			continue
		}
		if orig, ok := in.quotedOf[p.E]; ok {
			sb.WriteRune(rune(placeholderBase + len(atoms)))
			atoms = append(atoms, orig)
			continue
		}
		// raw symbolic text is interpreted as regexp syntax: fork over a small set of concrete instances
		conds := make([]Term, len(rawCandidates))
		for i, c := range rawCandidates {
			conds[i] = tEq(p, mkStr(c))
		}
		conds = append(conds, mkBool(true)) // none of the candidates: not modelled
		i := in.choose(conds)
		if i == len(rawCandidates) {
			panic(pathEnd{"assume-false"}) // outside the instances explored for raw fragments
		}
		in.trace = append(in.trace, fmt.Sprintf("raw (unquoted) pattern fragment instantiated as %q", rawCandidates[i]))
		sb.WriteString(rawCandidates[i])
	}
	re, err := syntax.Parse(sb.String(), syntax.Perl)
	if err != nil {
		return nil, err.Error()
	}
	re = re.Simplify()
	smt := in.regexToSMT(re, atoms, true)
	p := new(Value)
	*p = &Opaque{Kind: "regexp", Fields: map[string]Value{"re": mkStr(smt), "src": mkStr(sb.String())}, ID: in.newID()}
	in.trace = append(in.trace, fmt.Sprintf("regexp source %q parsed by regexp/syntax -> %s", sb.String(), smt))
	return p, ""
}

func iMustCompile(in *Interp, fn *ssa.Function, a []Value) Value {
	v, err := in.compileRegex(a[0].(Term))
	if err != "" {
		panic(goPanic{msg: "regexp: Compile: " + err})
	}
	return v
}

func iRegexpCompile(in *Interp, fn *ssa.Function, a []Value) Value {
	v, err := in.compileRegex(a[0].(Term))
	if err != "" {
		return Tuple{(*Value)(nil), in.makeErrorString(mkStr(err))}
	}
	return Tuple{v, Iface{}}
}

func iMatchString(in *Interp, fn *ssa.Function, a []Value) Value {
	re := (*a[0].(*Value)).(*Opaque)
	s := a[1].(Term)
	return symBool("(str.in_re " + s.smt() + " " + re.Fields["re"].(Term).Str + ")")
}

func smtChar(r rune) string {
	return smtStrLit(string(r))
}

// regexToSMT translates a regexp/syntax AST. top: handle ^…$ anchoring of an unanchored search.
func (in *Interp) regexToSMT(re *syntax.Regexp, atoms []Term, top bool) string {
	if top {
		// an unanchored search for an alternation is the union of the searches for its branches (each branch may carry its
		// own ^ and $: `^a|b|c$` is (^a)|(b)|(c$)), and a capture group is transparent
		switch re.Op {
		case syntax.OpAlternate:
			var parts []string
			for _, s := range re.Sub {
				parts = append(parts, in.regexToSMT(s, atoms, true))
			}
			return "(re.union " + strings.Join(parts, " ") + ")"
		case syntax.OpCapture:
			return in.regexToSMT(re.Sub[0], atoms, true)
		}
		subs := []*syntax.Regexp{re}
		if re.Op == syntax.OpConcat {
			subs = re.Sub
		}
		// what may precede / follow the match in an unanchored search: anything; nothing (^ / $ in single-line mode);
		// nothing or a line boundary ((?m)^ matches after a newline, (?m)$ before one)
		pre, post := "re.all", "re.all"
		if len(subs) > 0 {
			switch subs[0].Op {
			case syntax.OpBeginText:
				pre, subs = "", subs[1:]
			case syntax.OpBeginLine:
				pre, subs = `(re.union (str.to_re "") (re.++ re.all (str.to_re "\u{a}")))`, subs[1:]
			}
		}
		if len(subs) > 0 {
			switch subs[len(subs)-1].Op {
			case syntax.OpEndText:
				post, subs = "", subs[:len(subs)-1]
			case syntax.OpEndLine:
				post, subs = `(re.union (str.to_re "") (re.++ (str.to_re "\u{a}") re.all))`, subs[:len(subs)-1]
			}
		}
		var parts []string
		if pre != "" {
			parts = append(parts, pre)
		}
		for _, s := range subs {
			parts = append(parts, in.regexToSMT(s, atoms, false))
		}
		if post != "" {
			parts = append(parts, post)
		}
		return reConcat(parts)
	}
	switch re.Op {
	case syntax.OpEmptyMatch:
		return `(str.to_re "")`
	case syntax.OpLiteral:
		if re.Flags&syntax.FoldCase != 0 {
			panic(abort("regexp bridge: case-folded literal"))
		}
		var parts []string
		var lit strings.Builder
		flush := func() {
			if lit.Len() > 0 {
				parts = append(parts, "(str.to_re "+smtStrLit(lit.String())+")")
				lit.Reset()
			}
		}
		for _, r := range re.Rune {
			if r >= placeholderBase && int(r-placeholderBase) < len(atoms) {
				flush()
				parts = append(parts, "(str.to_re "+atoms[r-placeholderBase].smt()+")")
			} else {
				lit.WriteRune(r)
			}
		}
		flush()
		return reConcat(parts)
	case syntax.OpAnyChar:
		return "re.allchar"
	case syntax.OpAnyCharNotNL:
		return `(re.diff re.allchar (str.to_re "\u{a}"))`
	case syntax.OpCharClass:
		var parts []string
		for i := 0; i+1 < len(re.Rune); i += 2 {
			lo, hi := re.Rune[i], re.Rune[i+1]
			if hi > 0x2FFFF {
				hi = 0x2FFFF
			}
			if lo > hi {
				continue
			}
			parts = append(parts, "(re.range "+smtChar(lo)+" "+smtChar(hi)+")")
		}
		if len(parts) == 0 {
			return "re.none"
		}
		if len(parts) == 1 {
			return parts[0]
		}
		return "(re.union " + strings.Join(parts, " ") + ")"
	case syntax.OpConcat:
		var parts []string
		for _, s := range re.Sub {
			parts = append(parts, in.regexToSMT(s, atoms, false))
		}
		return reConcat(parts)
	case syntax.OpAlternate:
		var parts []string
		for _, s := range re.Sub {
			parts = append(parts, in.regexToSMT(s, atoms, false))
		}
		return "(re.union " + strings.Join(parts, " ") + ")"
	case syntax.OpCapture:
		return in.regexToSMT(re.Sub[0], atoms, false)
	case syntax.OpStar, syntax.OpPlus, syntax.OpQuest, syntax.OpRepeat:
		sub := re.Sub[0]
		if sub.Op == syntax.OpLiteral && len(sub.Rune) > 0 {
			last := sub.Rune[len(sub.Rune)-1]
			if last >= placeholderBase && int(last-placeholderBase) < len(atoms) {
				panic(abort("regexp bridge: repetition operator applied directly to a quoted symbolic fragment"))
			}
		}
		x := in.regexToSMT(sub, atoms, false)
		switch re.Op {
		case syntax.OpStar:
			return "(re.* " + x + ")"
		case syntax.OpPlus:
			return "(re.+ " + x + ")"
		case syntax.OpQuest:
			return "(re.opt " + x + ")"
		default:
			if re.Max < 0 {
				return fmt.Sprintf("(re.++ ((_ re.loop %d %d) %s) (re.* %s))", re.Min, re.Min, x, x)
			}
			return fmt.Sprintf("((_ re.loop %d %d) %s)", re.Min, re.Max, x)
		}
	}
	panic(abort("regexp bridge: unmodelled op " + re.Op.String()))
}

func reConcat(parts []string) string {
	switch len(parts) {
	case 0:
		return `(str.to_re "")`
	case 1:
		return parts[0]
	}
	return "(re.++ " + strings.Join(parts, " ") + ")"
}

// ---------- prims for the acl harness ----------

func init() {
	prims["registerSplit"] = pRegisterSplit
	prims["globOracle"] = pGlobOracle
	prims["strLenLE"] = func(in *Interp, fn *ssa.Function, a []Value) Value {
		s := a[0].(Term)
		n := int(a[1].(Term).U)
		if s.C {
			return mkBool(utf8.RuneCountInString(s.Str) <= n)
		}
		return symBool(fmt.Sprintf("(<= (str.len %s) %d)", s.smt(), n))
	}
	prims["validText"] = func(in *Interp, fn *ssa.Function, a []Value) Value {
		s := a[0].(Term)
		if s.C {
			return mkBool(utf8.ValidString(s.Str))
		}
		// code points only: no surrogates, nothing above U+10FFFF
		return symBool(`(not (str.in_re ` + s.smt() + ` (re.++ re.all (re.union (re.range "\u{d800}" "\u{dfff}") (re.range "\u{110000}" "\u{2ffff}")) re.all)))`)
	}
}

// registerSplit(s, sep, parts...): declares that strings.Split(s, sep) = parts. The engine proves the claim.
func pRegisterSplit(in *Interp, fn *ssa.Function, a []Value) Value {
	s, sep := a[0].(Term), a[1].(Term)
	parts := termList(a[2])
	joined := mkStr("")
	var cs []Term
	for i, p := range parts {
		if i > 0 {
			joined = strConcat(joined, sep)
		}
		joined = strConcat(joined, p)
		cs = append(cs, tNot(strContains(p, sep)))
	}
	cs = append(cs, tEq(s, joined))
	claim := tAnd(cs...)
	if !claim.C {
		if in.sess.Check(tNot(claim).E, "assert") != Unsat {
			panic(abort("registerSplit: decomposition is not implied by the path condition"))
		}
	} else if !claim.B {
		panic(abort("registerSplit: wrong decomposition"))
	}
	in.splitOf[s.smt()+"\x00"+sep.smt()] = parts
	return nil
}

// globOracle(name, pieces...): name ∈ p0 Σ* p1 … Σ* pk  (the statement's semantics of '*')
func pGlobOracle(in *Interp, fn *ssa.Function, a []Value) Value {
	name := a[0].(Term)
	pieces := termList(a[1])
	var parts []string
	for i, p := range pieces {
		if i > 0 {
			parts = append(parts, "re.all")
		}
		parts = append(parts, "(str.to_re "+p.smt()+")")
	}
	return symBool("(str.in_re " + name.smt() + " " + reConcat(parts) + ")")
}
