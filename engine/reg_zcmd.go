package main

func init() {
	stubs := map[string]string{
		"(github.com/tailscale/setec/client/setec.Client).Put": "verifStubClientPut",
		"os.ReadFile":                  "verifStubReadInputFile",
		"io.ReadAll":                   "verifStubReadAll",
		"golang.org/x/term.IsTerminal": "verifStubIsTerminal",
		"(*os.File).Fd":                "verifStubFd",
		"(*github.com/creachadair/command.Env).Context": "verifStubEnvContext",
	}
	p := findProp("C18")
	if p == nil {
		return
	}
	large := map[string]string{}
	for k, v := range stubs {
		large[k] = v
	}
	large["io.ReadAll"] = "verifStubReadAllLarge"
	large["io.LimitReader"] = "verifStubLimitReader"
	large["unicode/utf8.Valid"] = "verifStubBinaryInput"
	p.Pkgs = append(p.Pkgs, "cmd/setec")
	p.Harnesses = append(p.Harnesses, &HarnessSpec{Name: "verifHarnessC18RunPutLarge", Pkg: "cmd/setec", Stubs: large, Params: map[string]int{},
		ExpectReach: []string{"end"}, NoNative: "the CLI's client, stdin and file are stubs in this harness",
		Desc: "runPut with a binary input of any length below 2^40 (opaque bytes, symbolic length), file and pipe: exactly the bytes read are sent"})
	p.Bounds["CLI large input"] = "binary input of symbolic length 1..2^40-1"
	p.Bounds["CLI input"] = "every byte vector of length 0..3 (quick) / 0..4 (thorough), all combinations of --verbatim/--trim-space/--empty-ok, file and pipe"
	p.Harnesses = append(p.Harnesses,
		&HarnessSpec{Name: "verifHarnessC18CheckPutText", Pkg: "cmd/setec", Stubs: stubs, Params: map[string]int{"inputlen": 3}, ThoroughParams: map[string]int{"inputlen": 4},
			ExpectReach: []string{"end-refused", "end-accepted"}, Desc: "checkPutText == the statement's policy table, with the real utf8.Valid / bytes.TrimSpace / unicode.IsSpace interpreted on symbolic bytes"},
		&HarnessSpec{Name: "verifHarnessC18RunPut", Pkg: "cmd/setec", Stubs: stubs, Params: map[string]int{"inputlen": 2}, ThoroughParams: map[string]int{"inputlen": 3},
			ExpectReach: []string{"end-refused", "end-empty-refused", "end-sent", "end-read-error"}, NoNative: "the CLI's client, stdin and file are stubs in this harness",
			Desc: "runPut (file and pipe): sends exactly checkPutText's bytes once; refusals and empty values never contact the server"})
}
