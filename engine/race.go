package main

import (
	"fmt"
	"path/filepath"
	"sort"
	"strings"

	"golang.org/x/tools/go/ssa"
)

// Two-actor data-race detection (Eraser-style lock sets) for the re-entrant concurrency harnesses.
//
// Actor 0 is the harness's main call; actor 1 is whatever `concurrently(f)` (or another harness hook that calls
// raceActor) runs inside it: another goroutine's operation placed at that point. While tracking is on, every load and
// store performed BY REPOSITORY CODE (not by harness code, whose sinks and recorders stand for the kernel or the network)
// is recorded per memory cell with the set of mutexes held. A cell accessed by both actors, at least once for writing,
// with no mutex common to all its accesses, is a data race: the two accesses could happen simultaneously in a real
// execution. Map reads/writes count against the map object. The report names the functions of the first conflicting
// accesses.

type raceAccess struct {
	read, write bool
	locks       map[*Value]bool // intersection of the lock sets of this actor's accesses; nil = no access yet
	where       string
}

type raceCell [2]raceAccess

func (in *Interp) raceRepoCode() (string, bool) {
	fr := in.cur
	if fr == nil || fr.fn == nil {
		return "", false
	}
	fn := fr.fn
	pk := fn.Pkg
	if pk == nil && fn.Origin() != nil {
		pk = fn.Origin().Pkg
	}
	for f := fn; pk == nil && f.Parent() != nil; {
		f = f.Parent()
		pk = f.Pkg
	}
	if pk == nil || !strings.HasPrefix(pk.Pkg.Path(), repoMod) {
		return "", false
	}
	if fn.Pos().IsValid() && strings.HasPrefix(filepath.Base(in.L.prog.Fset.Position(fn.Pos()).Filename), "zz_verif_") {
		return "", false
	}
	return fn.String(), true
}

func (in *Interp) raceNote(key interface{}, write bool) {
	if !in.raceOn {
		return
	}
	where, ok := in.raceRepoCode()
	if !ok {
		return
	}
	if in.raceCells == nil {
		in.raceCells = map[interface{}]*raceCell{}
	}
	c := in.raceCells[key]
	if c == nil {
		c = &raceCell{}
		in.raceCells[key] = c
	}
	a := &c[in.raceActor]
	held := map[*Value]bool{}
	for mu, h := range in.heldLocks {
		if h {
			held[mu] = true
		}
	}
	if a.locks == nil {
		a.locks = held
		a.where = where
	} else {
		for mu := range a.locks {
			if !held[mu] {
				delete(a.locks, mu)
			}
		}
	}
	if write {
		a.write = true
		a.where = where
	} else {
		a.read = true
	}
}

// raceReport is called when tracking ends: every conflicting cell is a violation of label "data-race".
func (in *Interp) raceReport() {
	var msgs []string
	for _, c := range in.raceCells {
		a, b := c[0], c[1]
		if a.locks == nil || b.locks == nil || !(a.write || b.write) {
			continue
		}
		common := false
		for mu := range a.locks {
			if b.locks[mu] {
				common = true
			}
		}
		if common {
			continue
		}
		msgs = append(msgs, fmt.Sprintf("memory written without a common lock by two overlapping operations: %s and %s", a.where, b.where))
	}
	in.raceOn = false
	in.raceCells = nil
	if len(msgs) == 0 {
		return
	}
	sort.Strings(msgs)
	in.ghostViolation("data-race", msgs[0])
}

func pRaceBegin(in *Interp, fn *ssa.Function, a []Value) Value {
	in.raceOn, in.raceActor, in.raceCells = true, 0, nil
	return nil
}

func pRaceEnd(in *Interp, fn *ssa.Function, a []Value) Value {
	in.raceReport()
	return nil
}

func registerRace() {
	// math/rand's generator objects: each use advances (writes) the generator's state
	intrinsics["math/rand.NewSource"] = func(in *Interp, fn *ssa.Function, a []Value) Value {
		p := new(Value)
		*p = &Opaque{Kind: "rand.Source", ID: in.newID()}
		return Iface{T: fn.Signature.Results().At(0).Type(), V: p}
	}
	intrinsics["math/rand.New"] = func(in *Interp, fn *ssa.Function, a []Value) Value {
		p := new(Value)
		*p = &Opaque{Kind: "rand.Rand", ID: in.newID()}
		return p
	}
	for _, m := range []string{"Uint64", "Uint32", "Int63", "Int31", "Int", "Int63n", "Int31n", "Intn"} {
		m := m
		intrinsics["(*math/rand.Rand)."+m] = func(in *Interp, fn *ssa.Function, a []Value) Value {
			if p, ok := a[0].(*Value); ok && p != nil {
				in.raceNote(p, true)
			}
			w := 64
			if strings.Contains(m, "32") || strings.Contains(m, "31") {
				w = 32
			}
			return in.freshBV("rand."+m, w)
		}
	}
}
