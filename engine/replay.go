package main

// replayViolation re-runs the harness natively with the model (filled in below).
func replayViolation(L *Loaded, p *Property, spec *HarnessSpec, v *Violation, dir string) string {
	return nativeReplay(L, p, spec, v, dir)
}
