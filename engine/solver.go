package main

import (
	"bufio"
	"fmt"
	"io"
	"os"
	"os/exec"
	"strconv"
	"strings"
	"sync/atomic"
	"time"
)

// SolverStats aggregates over all sessions of a check.
type SolverStats struct {
	Feasibility int64
	Assertion   int64
	Sat         int64
	Unsat       int64
	Unknown     int64
	Errors      int64
	TimeNS      int64
	CrossChecks int64
	CrossDis    int64
	CrossTimeNS int64
	Watchdog    int64
}

var gStats SolverStats

// Session is one live solver process.
type Session struct {
	name    string
	cmd     *exec.Cmd
	in      io.WriteCloser
	out     *bufio.Reader
	log     *os.File
	timeout int // ms
	nq      int
	// script of the current path (for cross-checking on other solvers)
	script  []string
	gen     int  // incremented on every watchdog restart
	depth   int  // decision levels currently pushed
	shared  int  // decisions shared with the previous path
	quiet   bool // inside the shared part: commands are recorded but not sent
	fresh   bool
	noShare bool
}

func solverArgs(name string) (string, []string) {
	switch name {
	case "z3-new":
		return "z3-new", []string{"-in", "-smt2"}
	case "z3":
		return "/usr/bin/z3", []string{"-in", "-smt2"}
	case "cvc5":
		return "cvc5", []string{"--incremental", "--strings-exp", "--produce-models", "--lang", "smt2"}
	case "cvc5-int":
		// integer encoding of bit-vector arithmetic that keeps the mod-2^k semantics: decides mul/div-by-constant kernels that bit-blasting does not
		return "cvc5", []string{"--incremental", "--strings-exp", "--produce-models", "--solve-bv-as-int=sum", "--lang", "smt2"}
	}
	panic("unknown solver " + name)
}

func NewSession(name string, timeoutMS int, logPath string) (*Session, error) {
	bin, args := solverArgs(name)
	cmd := exec.Command(bin, args...)
	in, err := cmd.StdinPipe()
	if err != nil {
		return nil, err
	}
	out, err := cmd.StdoutPipe()
	if err != nil {
		return nil, err
	}
	cmd.Stderr = cmd.Stdout
	if err := cmd.Start(); err != nil {
		return nil, err
	}
	s := &Session{name: name, cmd: cmd, in: in, out: bufio.NewReaderSize(out, 1<<16), timeout: timeoutMS, fresh: true}
	s.noShare = os.Getenv("GOSYM_SHARE") == "" // prefix sharing between paths is opt-in: z3 is less predictable on deep push stacks
	if logPath != "" {
		s.log, _ = os.Create(logPath)
	}
	if strings.HasPrefix(name, "cvc5") {
		s.raw("(set-logic ALL)")
		s.raw(fmt.Sprintf("(set-option :tlimit-per %d)", timeoutMS))
	} else {
		s.raw(fmt.Sprintf("(set-option :timeout %d)", timeoutMS))
	}
	s.raw("(push 1)")
	return s, nil
}

func (s *Session) Close() {
	if s == nil {
		return
	}
	s.in.Close()
	done := make(chan struct{})
	go func() { s.cmd.Wait(); close(done) }()
	select {
	case <-done:
	case <-time.After(2 * time.Second):
		s.cmd.Process.Kill()
	}
	if s.log != nil {
		s.log.Close()
	}
}

func (s *Session) raw(c string) {
	if s.log != nil {
		fmt.Fprintln(s.log, c)
	}
	io.WriteString(s.in, c)
	io.WriteString(s.in, "\n")
}

// Cmd sends a command that yields no output and records it in the path script.
func (s *Session) Cmd(c string) {
	s.script = append(s.script, c)
	if !s.quiet {
		s.raw(c)
	}
}

// StartPath prepares the solver for a new path. The solver keeps one assertion
// level per decision; the levels of the decisions the new path shares with the
// previous one on this session are kept, and while the (deterministic)
// re-execution passes through that shared part nothing is sent again.
func (s *Session) StartPath(prev, next []int) {
	if s.fresh {
		s.fresh = false
		s.quiet = false
		s.depth = 0
		s.shared = 0
		s.script = s.script[:0]
		return
	}
	shared := 0
	for shared < len(prev) && shared < len(next) && prev[shared] == next[shared] {
		shared++
	}
	if shared > s.depth {
		shared = s.depth
	}
	if s.noShare {
		// full reset
		for ; s.depth > 0; s.depth-- {
			s.raw("(pop 1)")
		}
		s.raw("(pop 1)")
		s.raw("(push 1)")
		s.shared, s.quiet = 0, false
		s.script = s.script[:0]
		return
	}
	for ; s.depth > shared; s.depth-- {
		s.raw("(pop 1)")
	}
	s.shared = shared
	s.quiet = true
	s.script = s.script[:0]
}

// AtDecision is called when execution reaches its idx-th decision: the shared part ends at decision s.shared.
func (s *Session) AtDecision(idx int) {
	if s.quiet && idx >= s.shared {
		s.quiet = false
	}
}

// PushDecision opens the assertion level of decision idx.
func (s *Session) PushDecision(idx int) {
	s.script = append(s.script, "(push 1)")
	if !s.quiet {
		s.raw("(push 1)")
		s.depth++
	}
}

// Quiet reports whether execution is inside the part shared with the previous path (already asserted, already checked).
func (s *Session) Quiet() bool { return s.quiet }

var syncCounter int64

// roundtrip sends c (which yields output) and returns all lines up to a sync marker.
// A watchdog kills a solver that ignores its own time limit; the session is then
// restarted and brought back to the current path state, and the query counts as unknown.
func (s *Session) roundtrip(c string) []string {
	tStart := time.Now()
	n := atomic.AddInt64(&syncCounter, 1)
	marker := fmt.Sprintf("<<sync-%d>>", n)
	s.raw(c)
	s.raw(fmt.Sprintf("(echo \"%s\")", marker))
	type res struct{ lines []string }
	done := make(chan res, 1)
	out := s.out
	go func() {
		var lines []string
		for {
			line, err := out.ReadString('\n')
			line = strings.TrimRight(line, "\r\n")
			if strings.Contains(line, marker) {
				break
			}
			if line != "" {
				lines = append(lines, line)
			}
			if err != nil {
				lines = append(lines, "(error \"solver died: "+err.Error()+"\")")
				break
			}
		}
		done <- res{lines}
	}()
	var lines []string
	select {
	case r := <-done:
		lines = r.lines
	case <-time.After(time.Duration(s.timeout)*time.Millisecond + 10*time.Second):
		s.cmd.Process.Kill()
		<-done
		atomic.AddInt64(&gStats.Watchdog, 1)
		s.restart()
		lines = []string{"unknown", "; watchdog: solver exceeded its time limit and was restarted"}
	}
	if s.log != nil {
		for _, l := range lines {
			fmt.Fprintln(s.log, "; -> "+l)
		}
		fmt.Fprintf(s.log, "; took %d ms\n", time.Since(tStart).Milliseconds())
	}
	return lines
}

// restart starts a fresh solver process and replays the current path script.
func (s *Session) restart() {
	s.gen++
	s.in.Close()
	s.cmd.Wait()
	bin, args := solverArgs(s.name)
	cmd := exec.Command(bin, args...)
	in, _ := cmd.StdinPipe()
	out, _ := cmd.StdoutPipe()
	cmd.Stderr = cmd.Stdout
	if err := cmd.Start(); err != nil {
		panic(abort("solver restart failed: " + err.Error()))
	}
	s.cmd, s.in, s.out = cmd, in, bufio.NewReaderSize(out, 1<<16)
	if strings.HasPrefix(s.name, "cvc5") {
		s.raw("(set-logic ALL)")
		s.raw(fmt.Sprintf("(set-option :tlimit-per %d)", s.timeout))
	} else {
		s.raw(fmt.Sprintf("(set-option :timeout %d)", s.timeout))
	}
	s.raw("(push 1)")
	s.depth = 0
	for _, c := range s.script {
		s.raw(c)
		if c == "(push 1)" {
			s.depth++
		}
	}
	s.quiet = false
	s.shared = 0
}

type SatResult int

const (
	Unsat SatResult = iota
	Sat
	Unknown
)

func (r SatResult) String() string { return [...]string{"unsat", "sat", "unknown"}[r] }

func parseSat(lines []string) SatResult {
	res := Unknown
	seen := false
	for _, l := range lines {
		if strings.Contains(l, "(error") {
			atomic.AddInt64(&gStats.Errors, 1)
			return Unknown
		}
		switch strings.TrimSpace(l) {
		case "sat":
			res, seen = Sat, true
		case "unsat":
			res, seen = Unsat, true
		case "unknown", "timeout":
			res, seen = Unknown, true
		}
	}
	if !seen {
		return Unknown
	}
	return res
}

// Check: is (path condition ∧ extra) satisfiable?  kind is "feas" or "assert".
func (s *Session) Check(extra string, kind string) SatResult {
	t0 := time.Now()
	var c string
	if extra != "" {
		c = "(push 1)\n(assert " + extra + ")\n(check-sat)\n(pop 1)"
	} else {
		c = "(check-sat)"
	}
	lines := s.roundtrip(c)
	r := parseSat(lines)
	s.account(r, kind, t0)
	return r
}

func (s *Session) account(r SatResult, kind string, t0 time.Time) {
	atomic.AddInt64(&gStats.TimeNS, int64(time.Since(t0)))
	if kind == "assert" {
		atomic.AddInt64(&gStats.Assertion, 1)
	} else {
		atomic.AddInt64(&gStats.Feasibility, 1)
	}
	switch r {
	case Sat:
		atomic.AddInt64(&gStats.Sat, 1)
	case Unsat:
		atomic.AddInt64(&gStats.Unsat, 1)
	default:
		atomic.AddInt64(&gStats.Unknown, 1)
	}
	s.nq++
}

// CheckModel: like Check but on sat also returns the values of vars.
func (s *Session) CheckModel(extra string, vars []string, kind string) (SatResult, map[string]string) {
	t0 := time.Now()
	gen := s.gen
	s.raw("(push 1)")
	if extra != "" {
		s.raw("(assert " + extra + ")")
	}
	lines := s.roundtrip("(check-sat)")
	r := parseSat(lines)
	if s.gen != gen {
		s.account(Unknown, kind, t0)
		return Unknown, nil
	}
	s.account(r, kind, t0)
	var model map[string]string
	if r == Sat && len(vars) > 0 {
		model = map[string]string{}
		// chunk to keep lines manageable
		for i := 0; i < len(vars); i += 40 {
			j := i + 40
			if j > len(vars) {
				j = len(vars)
			}
			out := s.roundtrip("(get-value (" + strings.Join(vars[i:j], " ") + "))")
			if s.gen != gen {
				return Unknown, nil
			}
			parseValues(strings.Join(out, "\n"), model)
		}
	}
	s.raw("(pop 1)")
	return r, model
}

// ---------- s-expression parsing of get-value output ----------

type sx struct {
	atom string
	list []*sx
	isL  bool
}

func parseSx(s string, i *int) *sx {
	skip := func() {
		for *i < len(s) && (s[*i] == ' ' || s[*i] == '\n' || s[*i] == '\t' || s[*i] == '\r') {
			*i++
		}
	}
	skip()
	if *i >= len(s) {
		return nil
	}
	if s[*i] == '(' {
		*i++
		n := &sx{isL: true}
		for {
			skip()
			if *i >= len(s) {
				return n
			}
			if s[*i] == ')' {
				*i++
				return n
			}
			n.list = append(n.list, parseSx(s, i))
		}
	}
	if s[*i] == '"' {
		j := *i + 1
		for j < len(s) {
			if s[j] == '"' {
				if j+1 < len(s) && s[j+1] == '"' {
					j += 2
					continue
				}
				break
			}
			j++
		}
		a := s[*i : j+1]
		*i = j + 1
		return &sx{atom: a}
	}
	if s[*i] == '|' {
		j := strings.IndexByte(s[*i+1:], '|')
		a := s[*i : *i+j+2]
		*i += j + 2
		return &sx{atom: a}
	}
	j := *i
	for j < len(s) && !strings.ContainsRune(" \n\t\r()", rune(s[j])) {
		j++
	}
	a := s[*i:j]
	*i = j
	return &sx{atom: a}
}

func (n *sx) String() string {
	if !n.isL {
		return n.atom
	}
	parts := make([]string, len(n.list))
	for i, c := range n.list {
		parts[i] = c.String()
	}
	return "(" + strings.Join(parts, " ") + ")"
}

func parseValues(out string, into map[string]string) {
	i := 0
	root := parseSx(out, &i)
	if root == nil || !root.isL {
		return
	}
	for _, pair := range root.list {
		if pair == nil || !pair.isL || len(pair.list) != 2 {
			continue
		}
		k := pair.list[0].String()
		if !strings.HasPrefix(k, "|") {
			k = "|" + k + "|" // cvc5 prints simple symbols without bars
		}
		into[k] = pair.list[1].String()
	}
}

// decodeSMTString turns an SMT-LIB string literal into runes (code points).
func decodeSMTString(lit string) []rune {
	if len(lit) >= 2 && lit[0] == '"' {
		lit = lit[1 : len(lit)-1]
	}
	var out []rune
	for i := 0; i < len(lit); {
		if lit[i] == '"' && i+1 < len(lit) && lit[i+1] == '"' {
			out = append(out, '"')
			i += 2
			continue
		}
		if lit[i] == '\\' && i+2 < len(lit) && lit[i+1] == 'u' {
			if lit[i+2] == '{' {
				j := strings.IndexByte(lit[i:], '}')
				if j > 0 {
					v, err := strconv.ParseUint(lit[i+3:i+j], 16, 32)
					if err == nil {
						out = append(out, rune(v))
						i += j + 1
						continue
					}
				}
			} else if i+6 <= len(lit) {
				v, err := strconv.ParseUint(lit[i+2:i+6], 16, 32)
				if err == nil {
					out = append(out, rune(v))
					i += 6
					continue
				}
			}
		}
		if lit[i] == '\\' && i+1 < len(lit) && lit[i+1] == 'x' && i+4 <= len(lit) {
			v, err := strconv.ParseUint(lit[i+2:i+4], 16, 32)
			if err == nil {
				out = append(out, rune(v))
				i += 4
				continue
			}
		}
		out = append(out, rune(lit[i]))
		i++
	}
	return out
}

// decodeBV parses #x.. / #b.. / (_ bvN w)
func decodeBV(v string) (uint64, bool) {
	v = strings.TrimSpace(v)
	if strings.HasPrefix(v, "#x") {
		u, err := strconv.ParseUint(v[2:], 16, 64)
		return u, err == nil
	}
	if strings.HasPrefix(v, "#b") {
		u, err := strconv.ParseUint(v[2:], 2, 64)
		return u, err == nil
	}
	if strings.HasPrefix(v, "(_ bv") {
		f := strings.Fields(v[5:])
		if len(f) > 0 {
			u, err := strconv.ParseUint(f[0], 10, 64)
			return u, err == nil
		}
	}
	return 0, false
}

// crossCheck runs a complete script (declarations + assertions + one extra)
// on another solver in one shot, returning its verdict.
func crossCheck(solver string, script []string, extra string, timeoutMS int) SatResult {
	t0 := time.Now()
	defer func() { atomic.AddInt64(&gStats.CrossTimeNS, int64(time.Since(t0))) }()
	bin, args := solverArgs(solver)
	cmd := exec.Command(bin, args...)
	var sb strings.Builder
	if strings.HasPrefix(solver, "cvc5") {
		sb.WriteString("(set-logic ALL)\n")
		fmt.Fprintf(&sb, "(set-option :tlimit-per %d)\n", timeoutMS)
	} else {
		fmt.Fprintf(&sb, "(set-option :timeout %d)\n", timeoutMS)
	}
	for _, c := range script {
		sb.WriteString(c)
		sb.WriteByte('\n')
	}
	if extra != "" {
		sb.WriteString("(assert " + extra + ")\n")
	}
	sb.WriteString("(check-sat)\n")
	cmd.Stdin = strings.NewReader(sb.String())
	out, _ := cmd.CombinedOutput()
	atomic.AddInt64(&gStats.CrossChecks, 1)
	return parseSat(strings.Split(string(out), "\n"))
}
