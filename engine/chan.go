package main

import (
	"fmt"
	"go/types"

	"golang.org/x/tools/go/ssa"
)

// Sequential-layer channel semantics: internal channels have concrete
// occupancy; environment channels carry a readiness Bool term.

func (in *Interp) chanSend(ch *ChanObj, v Value) {
	if ch == nil {
		panic(pathEnd{"blocked:send-nil-chan"})
	}
	if ch.Closed {
		panic(goPanic{msg: "send on closed channel"})
	}
	if len(ch.Buf) < ch.Cap {
		ch.Buf = append(ch.Buf, v)
		return
	}
	in.blocked(fmt.Sprintf("send on full chan#%d", ch.ID))
}

func (in *Interp) blocked(what string) {
	in.trace = append(in.trace, "blocked: "+what)
	if in.heldAny() {
		in.ghostViolation("blocks-under-lock", "goroutine blocks ("+what+") while holding a store/database mutex")
	}
	panic(pathEnd{"blocked"})
}

func (in *Interp) heldAny() bool {
	for _, h := range in.heldLocks {
		if h {
			return true
		}
	}
	return false
}

func (in *Interp) chanReady(ch *ChanObj, send bool) Term {
	if ch == nil {
		return mkBool(false)
	}
	if ch.Env != "" {
		if ch.EnvReady != nil {
			return in.call(ch.EnvReady, nil).(Term)
		}
		return ch.EnvV.(Term)
	}
	if send {
		return mkBool(len(ch.Buf) < ch.Cap || ch.Closed)
	}
	return mkBool(len(ch.Buf) > 0 || ch.Closed)
}

func (in *Interp) chanTake(ch *ChanObj, et types.Type) (Value, Term) {
	if ch.Env != "" {
		if ch.EnvTake != nil {
			in.call(ch.EnvTake, nil)
		}
		return in.zero(et), mkBool(ch.Env != "closed-when-ready")
	}
	if len(ch.Buf) > 0 {
		v := ch.Buf[0]
		ch.Buf = ch.Buf[1:]
		return v, mkBool(true)
	}
	return in.zero(et), mkBool(false)
}

func (in *Interp) chanRecv(ch *ChanObj, commaOk bool, rt types.Type) Value {
	et := rt
	if commaOk {
		et = rt.(*types.Tuple).At(0).Type()
	}
	r := in.chanReady(ch, false)
	if !in.branch(r) {
		what := "recv on nil chan"
		if ch != nil {
			what = fmt.Sprintf("recv on empty chan#%d %s", ch.ID, ch.Env)
		}
		in.blocked(what)
	}
	v, ok := in.chanTake(ch, et)
	if commaOk {
		return Tuple{v, ok}
	}
	return v
}

func (in *Interp) selectInstr(fr *frame, x *ssa.Select) Value {
	type st struct {
		ch   *ChanObj
		send bool
		v    Value
	}
	var states []st
	var conds []Term
	for _, s := range x.States {
		ch, _ := in.get(fr, s.Chan).(*ChanObj)
		e := st{ch: ch, send: s.Dir == types.SendOnly}
		if e.send {
			e.v = in.get(fr, s.Send)
		}
		states = append(states, e)
		conds = append(conds, in.chanReady(ch, e.send))
	}
	var none []Term
	for _, c := range conds {
		none = append(none, tNot(c))
	}
	alts := append(append([]Term{}, conds...), tAnd(none...))
	i := in.choose(alts)
	tt := x.Type().(*types.Tuple)
	res := make(Tuple, tt.Len())
	for k := 2; k < tt.Len(); k++ {
		res[k] = in.zero(tt.At(k).Type())
	}
	if i == len(states) {
		if x.Blocking {
			in.blocked("select with no ready case")
		}
		res[0] = mkBV(64, ^uint64(0))
		res[1] = mkBool(false)
		return res
	}
	res[0] = mkBV(64, uint64(i))
	res[1] = mkBool(false)
	e := states[i]
	if e.send {
		if e.ch.Closed {
			panic(goPanic{msg: "send on closed channel"})
		}
		e.ch.Buf = append(e.ch.Buf, e.v)
	} else {
		// find the recv slot index of this state
		k := 2
		for j := 0; j < i; j++ {
			if !states[j].send {
				k++
			}
		}
		v, ok := in.chanTake(e.ch, tt.At(k).Type())
		res[k] = v
		res[1] = ok
		in.trace = append(in.trace, fmt.Sprintf("select: recv from chan#%d %s", e.ch.ID, e.ch.Env))
	}
	return res
}
