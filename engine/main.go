package main

import (
	"encoding/json"
	"flag"
	"fmt"
	"os"
	"runtime"
	"strconv"
	"strings"
	"time"
)

func usage() {
	fmt.Fprintln(os.Stderr, `usage:
  gosym check <PROP> [--tier quick|thorough] [-v] [--harness NAME]
  gosym list`)
	os.Exit(2)
}

func main() {
	if len(os.Args) < 2 {
		usage()
	}
	if v := os.Getenv("VERIF_DIR"); v != "" {
		verifDir = v
	}
	switch os.Args[1] {
	case "check":
		os.Exit(cmdCheck(os.Args[2:]))
	case "replay":
		// gosym replay <dir-with-model.json>: native run of a stored counterexample or witness against the real build
		dir := os.Args[2]
		bs, err := os.ReadFile(dir + "/model.json")
		if err != nil {
			fmt.Fprintln(os.Stderr, err)
			os.Exit(2)
		}
		var doc struct {
			Harness   string `json:"harness"`
			Property  string `json:"property"`
			Assertion string `json:"assertion"`
		}
		json.Unmarshal(bs, &doc)
		if len(os.Args) >= 5 { // legacy form: replay <PROP> <harness> <dir>
			doc.Property, doc.Harness, dir = os.Args[2], os.Args[3], os.Args[4]
		}
		prop := findProp(doc.Property)
		if prop == nil {
			fmt.Fprintln(os.Stderr, "unknown property in model.json:", doc.Property)
			os.Exit(2)
		}
		var spec *HarnessSpec
		for _, h := range prop.Harnesses {
			if h.Name == doc.Harness {
				hh := *h
				hh.Prop = prop.ID
				spec = &hh
			}
		}
		v := &Violation{Harness: doc.Harness, Label: doc.Assertion}
		verdict := nativeReplay(nil, prop, spec, v, dir)
		fmt.Println("replay:", verdict)
		out, _ := os.ReadFile(dir + "/replay.log")
		os.Stdout.Write(out)
		if strings.HasPrefix(verdict, "reproduced") {
			os.Exit(1)
		}
	case "list":
		for _, p := range allProps() {
			fmt.Println(p.ID, len(p.Harnesses), "harnesses", p.Pkgs)
		}
	default:
		usage()
	}
}

func cmdCheck(args []string) int {
	fs := flag.NewFlagSet("check", flag.ExitOnError)
	tier := fs.String("tier", "", "quick|thorough")
	verbose := fs.Bool("v", false, "verbose")
	only := fs.String("harness", "", "run only this harness")
	workers := fs.Int("workers", 0, "total solver workers")
	logdir := fs.String("smtlog", "", "directory for SMT logs")
	noReplay := fs.Bool("no-replay", false, "skip native replay of counterexamples")
	var id string
	if len(args) > 0 && !strings.HasPrefix(args[0], "-") {
		id = args[0]
		args = args[1:]
	}
	fs.Parse(args)
	if id == "" && fs.NArg() > 0 {
		id = fs.Arg(0)
	}
	if *tier == "" {
		*tier = os.Getenv("VERIF_TIER")
	}
	if *tier == "" {
		*tier = "quick"
	}
	seed, _ := strconv.ParseInt(os.Getenv("VERIF_SEED"), 10, 64)
	prop := findProp(id)
	if prop == nil {
		fmt.Fprintln(os.Stderr, "unknown property", id)
		return 2
	}
	opts := &Options{Tier: *tier, Solver: "z3-new", TimeoutMS: 60000, CrossSolvers: []string{"z3"}, CrossEvery: 25,
		WitnessPerHarness: 3, Seed: seed, Verbose: *verbose, OnlyHarness: *only, LogDir: *logdir, HarnessWall: 8 * time.Minute}
	if *tier == "thorough" {
		opts.TimeoutMS = 300000
		opts.CrossEvery = 5
		opts.CrossSolvers = []string{"z3", "cvc5"}
		opts.WitnessPerHarness = 12
		opts.HarnessWall = 3 * time.Hour
	}
	if *logdir != "" {
		os.MkdirAll(*logdir, 0755)
	}
	opts.Workers = *workers
	if opts.Workers == 0 {
		opts.Workers = runtime.NumCPU()
	}
	t0 := time.Now()
	rc := runProperty(prop, opts, !*noReplay)
	fmt.Printf("property %s tier=%s finished in %.1fs exit=%d\n", prop.ID, *tier, time.Since(t0).Seconds(), rc)
	return rc
}
