package main

func nativeReplay(L *Loaded, p *Property, spec *HarnessSpec, v *Violation, dir string) string {
	return "model-only (native replay not built yet)"
}
