package main

// Assumptions (stubs' contracts, part of every claim) and what lies outside each claim; copied into the evidence files.

var commonAssume = []string{
	"go/ssa (x/tools v0.29.0) faithfully represents the source; the engine's instruction semantics (DESIGN App. A) are validated per run by native witness runs where a native counterpart exists",
	"z3 5.1.0 verdicts (sampled unsat verdicts re-checked on z3 4.8.12, and cvc5 in the thorough tier)",
}

var propMeta = map[string][2][]string{
	"C01": {{"acl.Rules.Allow is an arbitrary but functional predicate ALLOW(action,name) (its meaning is C07)", "audit sink healthy, saves succeed (faults are C04/C06)", "pre-state satisfies the representation invariant established by C02"},
		{"rule evaluation itself (C07)", "HTTP 403 mapping (C08)", "states larger than the bound except through the inductive argument", "the HTML dashboard"}},
	"C02": {{"json.Marshal, AEAD and atomicfile.WriteFile are contract stubs that may fail", "version counters below 2^32-1"},
		{"counters at 2^32-1", "states beyond 2x3 / 3x4 except via induction"}},
	"C03": {{"encoding/json modelled by key matching over go/types (field names, tags, text marshalers)", "AEAD/keyset as Dolev-Yao blobs: decrypt succeeds iff same key and associated data", "file write atomic (C04)"},
		{"fidelity of encoding/json and tink themselves", "opening actual files written by the pinned release (a concrete test, not a solver query)"}},
	"C04": {{"rename(2) is atomic and ordered after the preceding fsync; unsynced content is arbitrary after a kill", "kill points are file-system call boundaries", "failing file-system calls return the os package's error types (*fs.PathError with the call's Op, *os.LinkError for rename/link); os.Link gives a second name to the same inode"},
		{"directory fsync (atomicfile does not do it)", "kernel and file-system behaviour beyond the model", "native fault injection (the counterexamples of this property are model-only)"}},
	"C05": {{"AEAD is authenticated encryption (no forgery; wrong key, context or ciphertext fails)", "confidentiality is decided structurally on the blob tree handed to the file system", "a damaged live file is opened in place, with everything else save left in the directory still there (up to two generations)"},
		{"strength of XChaCha20-Poly1305/tink", "bit flips and truncation of real ciphertext (represented by 'arbitrary bytes' and splice classes)", "scanning real file bytes for markers"}},
	"C06": {{"json.Encoder.Encode = one Write of the entry document to the sink", "sink Write/Sync may fail at any call; a failing Write takes nothing or (SinkRecovers harness) a non-empty proper prefix of the record, and the sink may accept writes again afterwards", "an Encode line ends with its only newline"},
		{"non-interleaving of concurrent records (O_APPEND + one write(2) per Encode, kernel)", "only the flags of os.OpenFile for the audit file are checked (in C05)"}},
	"C07": {{"regexp.QuoteMeta(p) as a regular expression matches exactly the literal p", "the regexp matcher implements the AST produced by regexp/syntax", "strings are sequences of Unicode scalar values (valid UTF-8) whose len is their number: exact for ASCII; code that depends on runes versus bytes is reported undecided", "unquoted symbolic pattern fragments are instantiated from a fixed list of regexp-syntax samples (incl. \\E, \\Q)"},
		{"invalid UTF-8 patterns (MustCompile panics; not reachable through JSON)", "pieces longer than 3 and names longer than 8/12 code points, more than 2/3 stars"}},
	"C08": {{"net/http header lookup, WhoIs, capability decoding, netip parsing and the nine db.DB methods are nondeterministic stubs", "a body that is not JSON makes the decoder report an error (contract)"},
		{"net/http routing and header canonicalisation", "real JSON syntax", "WhoIs itself", "the HTML dashboard"}},
	"C09": {{"caller allowed to get; healthy audit sink"}, {"a real HTTP round trip (the transport is a stub: any status code, transport and body-read failures)"}},
	"C10": {{"StoreClient/Cache are scripted by nondeterministic outcomes; at most 2/3 failing requests, after which the caller's context ends", "timers replaced by a recorded list of sleeps", "string order is an uninterpreted strict total order"},
		{"wall-clock behaviour of real timers", "more than 3 declared names", "struct-tag parsing for arbitrary struct shapes (see C20)"}},
	"C11": {{"GetIfChanged answers not-changed iff the versions are equal (protocol contract)", "singleflight.DoChan runs the function once per key (leader model)", "clock quantities are mathematical integers within +-2^40 s"},
		{"real tickers and wall-clock cadence (the jitter arithmetic itself is decided for every positive interval)", "server-side changes within one poll beyond the arbitrary per-name service state", "a service that reuses version numbers"}},
	"C12": {{"a single mutex and one critical section per operation make operations atomic (trusted reduction)"},
		{"true parallel interleavings and the Go race detector", "memory-model effects below the mutex abstraction"}},
	"C13": {{"encoding/json contract model, including the outcome 'error with a partially filled target'", "FS model of C04 for the cache file"},
		{"byte-level fuzzing of the real decoder", "directory fsync"}},
	"C14": {{"single mutex + exactly one critical section per method => atomic => linearizable with the linearization point inside the section (trusted reasoning); the sequential step is C02's"},
		{"the race detector on the real binary", "audit.Writer/json.Encoder/metrics internals", "HTTP-level concurrency", "responses other than info/list are checked for stability by C18 (copy-out of values)"}},
	"C15": {{"the builder callback may fail and may be overtaken by an install (re-entrant harness)"}, {"more than one concurrent Get caller (rests on Updater.mu)", "histories longer than 4/6 events"}},
	"C16": {{"StoreClient contract: a request returns a context error only if its context ended, and returns promptly once it ends", "singleflight: leader runs the function inline; a follower receives the result of the other caller's execution of the same code"},
		{"singleflight's own implementation", "more than one follower generation", "real timers"}},
	"C17": {{"db.WriteGen is a non-decreasing counter that may advance at any read and during an upload", "os.ReadFile returns the file at that instant; PutObject may fail", "that the file read is a complete database file follows from C04"},
		{"the AWS SDK, S3, makeS3Client", "real time", "more than 2/4 loop rounds"}},
	"C18": {{"every JSON/base64 hop other than byteString's marshalers is the JSON contract", "'valid UTF-8 text with surrounding whitespace' is defined by utf8.Valid and bytes.TrimSpace"},
		{"values longer than the bound, megabyte values", "flag parsing, the terminal prompt branch, the built binary's exit status"}},
	"C19": {{"time.Time arithmetic is a contract stub over mathematical integers (saturating Sub)", "sums and differences of clock-derived int64 values computed by repository code wrap at +-2^63; products do not"}, {"time.Time internals", "real clocks"}},
	"C20": {{"reflect is a go/types-backed model of the 17 operations the code uses"},
		{"PARTIAL: struct shapes are a fixed family, not 'all shapes generated at run time'", "JSON decoding of field values beyond the syntactic-class contract (exactly one document / trailing bytes / not a document)", "embedding by pointer or deeper than one level"}},
}

func init() {
	for _, p := range propRegistry {
		if m, ok := propMeta[p.ID]; ok {
			p.Assumptions = append(append([]string{}, commonAssume...), m[0]...)
			p.Outside = m[1]
		}
	}
}
