package main

var dbStubs = map[string]string{
	"(github.com/tailscale/setec/acl.Rules).Allow": "verifAllowAll",
	"tailscale.com/atomicfile.WriteFile":           "verifAtomicWrite",
}

func init() {
	propRegistry = append(propRegistry, &Property{
		ID:   "C02",
		Pkgs: []string{"db"},
		Harnesses: []*HarnessSpec{
			{Name: "verifHarnessC02Put", Pkg: "db", Stubs: dbStubs, Params: map[string]int{"secrets": 2, "versions": 3},
				ThoroughParams: map[string]int{"secrets": 3, "versions": 4},
				ExpectReach:    []string{"end-error", "end-first", "end-dedupe", "end-new-version"},
				Desc:           "one DB.Put step from an arbitrary valid kv state, against the map model"},
			c02h("verifHarnessC02Activate", []string{"end-error", "end-ok"}, "one DB.Activate step"),
			c02h("verifHarnessC02DeleteVersion", []string{"end-error", "end-ok"}, "one DB.DeleteVersion step"),
			c02h("verifHarnessC02Delete", []string{"end-error", "end-ok"}, "one DB.Delete step"),
			c02h("verifHarnessC02Get", []string{"end-absent", "end-present"}, "DB.Get returns the active number and bytes, copy-out"),
			c02h("verifHarnessC02GetVersion", []string{"end-absent", "end-present"}, "DB.GetVersion"),
			c02h("verifHarnessC02Info", []string{"end-absent", "end-present"}, "DB.Info lists exactly the existing versions, sorted"),
			{Name: "verifHarnessC02History", Pkg: "db", Stubs: dbStubs, Params: map[string]int{"steps": 2}, ThoroughParams: map[string]int{"steps": 3}, ExpectReach: []string{"end"},
				Desc: "bounded histories (2 / 3 operations, kind and arguments symbolic, two symbolic names) from the empty database against an executable map model; also shows the invariant is reached, not only preserved"},
			c02hp("verifHarnessC02List", []string{"end"}, "DB.List as superuser lists every secret, sorted by name", 2, 2, 2, 3),
		},
		Bounds: map[string]string{"secrets_per_state": "2 (quick) / 3 (thorough)", "versions_per_secret": "3 / 4",
			"names,values": "SMT strings of any length", "version numbers": "any 32-bit value, LatestVersion < 2^32-1"},
	})
}

func c02h(name string, reach []string, desc string) *HarnessSpec {
	return &HarnessSpec{Name: name, Pkg: "db", Stubs: dbStubs, Params: map[string]int{"secrets": 2, "versions": 3},
		ThoroughParams: map[string]int{"secrets": 3, "versions": 4}, ExpectReach: reach, Desc: desc}
}

func c02hp(name string, reach []string, desc string, qs, qv, ts, tv int) *HarnessSpec {
	return &HarnessSpec{Name: name, Pkg: "db", Stubs: dbStubs, Params: map[string]int{"secrets": qs, "versions": qv},
		ThoroughParams: map[string]int{"secrets": ts, "versions": tv}, ExpectReach: reach, Desc: desc}
}

func init() {
	c01 := &Property{ID: "C01", Pkgs: []string{"db"},
		Bounds: map[string]string{"secrets_per_state": "2 / 3", "versions_per_secret": "2 / 3", "rule sets": "arbitrary: ALLOW(action,name) is an uninterpreted predicate"}}
	stubs := map[string]string{
		"(github.com/tailscale/setec/acl.Rules).Allow": "verifAllowUF",
		"tailscale.com/atomicfile.WriteFile":           "verifAtomicWrite",
	}
	for _, n := range []string{"Info", "Get", "GetConditional", "GetVersion", "Put", "Activate", "DeleteVersion", "Delete"} {
		c01.Harnesses = append(c01.Harnesses, &HarnessSpec{Name: "verifHarnessC01" + n, Pkg: "db", Stubs: stubs,
			Params: map[string]int{"secrets": 2, "versions": 2}, ThoroughParams: map[string]int{"secrets": 3, "versions": 3},
			ExpectReach: []string{"end-denied", "end-allowed"}, Desc: "DB." + n + ": effect or disclosure only with ALLOW(required action, name); refusal independent of existence"})
	}
	c01.Harnesses = append(c01.Harnesses, &HarnessSpec{Name: "verifHarnessC01List", Pkg: "db", Stubs: stubs,
		Params: map[string]int{"secrets": 2, "versions": 1}, ThoroughParams: map[string]int{"secrets": 3, "versions": 2},
		ExpectReach: []string{"end"}, Desc: "DB.List returns exactly the present secrets with ALLOW(info, name)"})
	c01.Harnesses = append(c01.Harnesses, &HarnessSpec{Name: "verifHarnessC01RealRule", Pkg: "db", Stubs: map[string]string{"tailscale.com/atomicfile.WriteFile": "verifAtomicWrite"},
		Params: map[string]int{"secrets": 1, "versions": 1}, ExpectReach: []string{"end"},
		Desc: "DB.Get through the REAL rule evaluation (one rule, one-star pattern, symbolic pieces, action and name): a value only with get on a pattern that matches per glob semantics"})
	propRegistry = append(propRegistry, c01)
}

func init() {
	c06 := &Property{ID: "C06", Pkgs: []string{"db"},
		Bounds: map[string]string{"secrets_per_state": "2 / 3", "versions_per_secret": "2 / 3", "sink faults": "every Write and every Sync may fail (nondet)"}}
	stubs := map[string]string{
		"(github.com/tailscale/setec/acl.Rules).Allow": "verifAllowUF",
		"tailscale.com/atomicfile.WriteFile":           "verifAtomicWrite",
	}
	for _, n := range []string{"Info", "Get", "GetConditional", "GetVersion", "Put", "Activate", "DeleteVersion", "Delete"} {
		c06.Harnesses = append(c06.Harnesses, &HarnessSpec{Name: "verifHarnessC06" + n, Pkg: "db", Stubs: stubs,
			Params: map[string]int{"secrets": 2, "versions": 2}, ThoroughParams: map[string]int{"secrets": 3, "versions": 3},
			ExpectReach: []string{"end-denied", "end-sink-failed"}, Desc: "DB." + n + ": sealed audit record before effect/disclosure; fail-closed on sink faults; the record names the secret the caller named, also for names that are not valid UTF-8",
			ModelOnlyLabels: map[string]string{"record-content": illNote, "denial-record": illNote, "effect-after-sealed-record": illNote, "disclosure-after-sealed-record": illNote}})
	}
	for _, n := range []string{"UnchangedPollSilent", "List", "WriteEntries", "ConcurrentWriters", "SinkRecovers"} {
		c06.Harnesses = append(c06.Harnesses, &HarnessSpec{Name: "verifHarnessC06" + n, Pkg: "db", Stubs: stubs,
			Params: map[string]int{"secrets": 2, "versions": 2}, ThoroughParams: map[string]int{"secrets": 3, "versions": 3},
			ExpectReach: []string{"end"}, Desc: "audit: " + n + map[string]string{"SinkRecovers": " -- two requests in a row, the sink fails (possibly after taking a non-empty proper prefix of the record: short write) while the first record is written and accepts writes afterwards; the first request fails closed, and the second, if served, has a complete synced line of its own in the file"}[n]})
	}
	c06.Harnesses = append(c06.Harnesses, &HarnessSpec{Name: "verifHarnessC05AuditFile", Pkg: "db", Stubs: dbEnvStubs, Params: map[string]int{},
		ExpectReach: []string{"end"}, NoNative: "file-system model", Desc: "the audit file is opened write-only, append, create, owner-only (records are appended, never written over)"})
	propRegistry = append(propRegistry, c06)
}

func init() {
	stubs := map[string]string{
		"(github.com/tailscale/setec/acl.Rules).Allow": "verifAllowUF",
		"tailscale.com/atomicfile.WriteFile":           "verifAtomicWrite",
	}
	propRegistry = append(propRegistry, &Property{ID: "C09", Pkgs: []string{"db"},
		Harnesses: []*HarnessSpec{{Name: "verifHarnessC09GetConditional", Pkg: "db", Stubs: stubs,
			Params: map[string]int{"secrets": 2, "versions": 3}, ThoroughParams: map[string]int{"secrets": 3, "versions": 4},
			ExpectReach: []string{"end-absent", "end-same", "end-changed"}, Desc: "DB.GetConditional: not-changed iff active version == V"}},
		Bounds: map[string]string{"secrets_per_state": "2 / 3", "versions_per_secret": "3 / 4", "V": "any 32-bit value"}})
	c14 := &Property{ID: "C14", Pkgs: []string{"db"}, Bounds: map[string]string{"secrets_per_state": "2 / 3", "versions_per_secret": "2 / 3"}}
	for _, n := range []string{"List", "Info", "Get", "GetConditional", "GetVersion", "Put", "Activate", "DeleteVersion", "Delete", "Path", "WriteGen"} {
		c14.Harnesses = append(c14.Harnesses, &HarnessSpec{Name: "verifHarnessC14" + n, Pkg: "db", Stubs: dbStubs,
			Params: map[string]int{"secrets": 2, "versions": 2}, ThoroughParams: map[string]int{"secrets": 3, "versions": 3},
			ExpectReach: []string{"end"}, NoNative: "lock-set ghost state has no native counterpart",
			Desc: "DB." + n + ": every access to kv state under db.mu, one critical section, released on every path, save under the lock"})
	}
	for _, n := range []string{"Put", "Activate", "DeleteVersion", "Get", "GetConditional"} {
		c14.Harnesses = append(c14.Harnesses, &HarnessSpec{Name: "verifHarnessC14Interleave" + n, Pkg: "db", Stubs: dbStubs,
			Params: map[string]int{"secrets": 1, "versions": 2}, ThoroughParams: map[string]int{"secrets": 2, "versions": 3}, ExpectReach: []string{"end"},
			NoNative: "the second request is run re-entrantly from the audit sink, a schedule the native harness cannot force",
			Desc:     "DB." + n + " with another client's whole request (put/activate/delete-version/delete on the same secret) executed in the window between its audit record and its critical section (for get / conditional get: two requests, e.g. a rotation): state consistent, both puts retrievable under distinct numbers, a read's outcome is the one it has when run alone before, between or after the other requests"})
	}
	for _, n := range []string{"InfoStable", "ListStable"} {
		c14.Harnesses = append(c14.Harnesses, &HarnessSpec{Name: "verifHarnessC14" + n, Pkg: "db", Stubs: dbStubs,
			Params: map[string]int{"secrets": 1, "versions": 2}, ThoroughParams: map[string]int{"secrets": 2, "versions": 2}, ExpectReach: []string{"end"},
			Desc: "DB." + n[:4] + ": the response a client holds is not rewritten by one or two later requests (put/activate/delete-version/delete on the same secret) -- a response sharing memory with database state would show a state no sequential order explains"})
	}
	propRegistry = append(propRegistry, c14)
}

const illNote = "a name that is not valid UTF-8 exists only as an abstract mark on a symbolic string (illFormedIf); native replays build well-formed names"

var dbEnvStubs = map[string]string{
	"(github.com/tailscale/setec/acl.Rules).Allow": "verifAllowAll",
	"tailscale.com/atomicfile.WriteFile":           "verifDiskWriteModel",
	"os.ReadFile":                                  "verifStubReadFile",
	"os.WriteFile":                                 "verifStubOSWriteFile",
	"os.OpenFile":                                  "verifStubOpenFile",
	"os.Open":                                      "verifStubOpen",
	"os.Stat":                                      "verifStubStat",
	"os.CreateTemp":                                "verifStubCreateTemp",
	"os.Remove":                                    "verifStubRemove",
	"os.Rename":                                    "verifStubRename",
	"os.Link":                                      "verifStubLink",
	"(*os.File).Name":                              "verifStubFileName",
	"(*os.File).Write":                             "verifStubFileWrite",
	"(*os.File).Chmod":                             "verifStubFileChmod",
	"(*os.File).Sync":                              "verifStubFileSync",
	"(*os.File).Close":                             "verifStubFileClose",
	"bytes.NewReader":                              "verifStubBytesNewReader",
	"(*bytes.Buffer).Write":                        "verifStubBufWrite",
	"(*bytes.Buffer).Bytes":                        "verifStubBufBytes",
	"github.com/tink-crypto/tink-go/v2/aead.XChaCha20Poly1305KeyTemplate":        "verifStubKeyTemplate",
	"github.com/tink-crypto/tink-go/v2/keyset.NewHandle":                         "verifStubNewHandle",
	"github.com/tink-crypto/tink-go/v2/aead.New":                                 "verifStubAEADNew",
	"github.com/tink-crypto/tink-go/v2/keyset.NewBinaryWriter":                   "verifStubNewBinaryWriter",
	"github.com/tink-crypto/tink-go/v2/keyset.NewBinaryReader":                   "verifStubNewBinaryReader",
	"(*github.com/tink-crypto/tink-go/v2/keyset.Handle).WriteWithAssociatedData": "verifStubWriteWithAD",
	"github.com/tink-crypto/tink-go/v2/keyset.ReadWithAssociatedData":            "verifStubReadWithAD",
}

func withReal(m map[string]string, real ...string) map[string]string {
	out := map[string]string{}
	for k, v := range m {
		out[k] = v
	}
	for _, r := range real {
		out[r] = "real"
	}
	return out
}

func init() {
	envNote := "file-system and tink are models (DESIGN §4.2/4.3); realising their faults natively needs ptrace fault injection"
	c03 := &Property{ID: "C03", Pkgs: []string{"db"}, Bounds: map[string]string{"secrets_per_state": "2 / 3", "versions_per_secret": "2 / 3"}}
	for _, n := range []string{"Put", "Activate", "DeleteVersion", "Delete", "Get"} {
		c03.Harnesses = append(c03.Harnesses, &HarnessSpec{Name: "verifHarnessC03" + n, Pkg: "db", Stubs: dbEnvStubs,
			Params: map[string]int{"secrets": 2, "versions": 2}, ThoroughParams: map[string]int{"secrets": 3, "versions": 3},
			ExpectReach: []string{"end"}, NoNative: envNote,
			Desc: "save pre-state, run DB." + n + " with save faults, reopen with the same key: loaded state equals the acknowledged state"})
	}
	c03.Harnesses = append(c03.Harnesses, &HarnessSpec{Name: "verifHarnessC03SchemaV1", Pkg: "db", Stubs: dbEnvStubs,
		Params: map[string]int{"secrets": 2, "versions": 2}, ThoroughParams: map[string]int{"secrets": 3, "versions": 3},
		ExpectReach: []string{"end-v1", "end-other-version"}, NoNative: envNote,
		Desc: "a document built from the documented schema-v1 layout and contexts (pinned in the harness) opens with identical contents; other schema versions rejected; open never writes"})
	for _, n := range []string{"ReopenedPut", "ReopenedActivate", "ReopenedDeleteVersion", "ReopenedDelete"} {
		c03.Harnesses = append(c03.Harnesses, &HarnessSpec{Name: "verifHarnessC05" + n, Pkg: "db", Stubs: dbEnvStubs,
			Params: map[string]int{"secrets": 2, "versions": 2}, ThoroughParams: map[string]int{"secrets": 3, "versions": 3},
			ExpectReach: []string{"end"}, NoNative: envNote,
			Desc: "restart chain: a mutation acknowledged by a database that was itself opened from a file is recovered by the next open (" + n + ")"})
	}
	propRegistry = append(propRegistry, c03)

	c04 := &Property{ID: "C04", Pkgs: []string{"db"}, Bounds: map[string]string{"fault positions": "every FS call of atomicfile.WriteFile (stat, createtemp, write, chmod, sync, close, rename, remove): error and kill-before", "secrets_per_state": "2 / 3"}}
	c04.Harnesses = append(c04.Harnesses, &HarnessSpec{Name: "verifHarnessC04WriteFile", Pkg: "db", Stubs: withReal(dbEnvStubs, "tailscale.com/atomicfile.WriteFile"),
		Params: map[string]int{}, ExpectReach: []string{"end-crash", "end-error", "end-ok"}, NoNative: envNote,
		Desc: "real tailscale.com/atomicfile.WriteFile over the FS model: a fault or a kill before every call"})
	for _, n := range []string{"Put", "Activate", "DeleteVersion", "Delete"} {
		c04.Harnesses = append(c04.Harnesses, &HarnessSpec{Name: "verifHarnessC04" + n, Pkg: "db", Stubs: dbEnvStubs,
			Params: map[string]int{"secrets": 2, "versions": 2}, ThoroughParams: map[string]int{"secrets": 3, "versions": 3},
			ExpectReach: []string{"end-fault", "end-no-fault"}, NoNative: envNote,
			Desc: "DB." + n + " with a failing save: memory, generation and file unchanged; retry succeeds"})
	}
	c04.Harnesses = append(c04.Harnesses, &HarnessSpec{Name: "verifHarnessC04SaveReal", Pkg: "db", Stubs: withReal(dbEnvStubs, "tailscale.com/atomicfile.WriteFile"),
		Params: map[string]int{"secrets": 1, "versions": 1}, ThoroughParams: map[string]int{"secrets": 2, "versions": 2}, ExpectReach: []string{"end-crash", "end-error", "end-ok"}, NoNative: envNote,
		Desc: "kv.save itself with the real atomicfile.WriteFile over the FS model (errors carry the types the os package gives them: *fs.PathError, *os.LinkError): whatever save does around the atomic write obeys the same rules"})
	c04.Harnesses = append(c04.Harnesses, &HarnessSpec{Name: "verifHarnessC04Create", Pkg: "db", Stubs: dbEnvStubs, Params: map[string]int{},
		ExpectReach: []string{"end-error", "end-ok"}, NoNative: envNote, Desc: "database creation under faults of every step"})
	propRegistry = append(propRegistry, c04)

	c05 := &Property{ID: "C05", Pkgs: []string{"db"}, Bounds: map[string]string{"secrets_per_state": "2 / 3", "tamper classes": "foreign KEK, DB spliced from another database, DEK spliced, context swap, arbitrary bytes as DB, arbitrary bytes as DEK"}}
	for _, n := range []string{"Confidential", "Tamper", "KEKList", "KEKGet", "KEKPut", "KEKActivate", "KEKDeleteVersion", "KEKDelete", "AuditFile",
		"ReopenedPut", "ReopenedActivate", "ReopenedDeleteVersion", "ReopenedDelete"} {
		h := &HarnessSpec{Name: "verifHarnessC05" + n, Pkg: "db", Stubs: dbEnvStubs,
			Params: map[string]int{"secrets": 2, "versions": 2}, ThoroughParams: map[string]int{"secrets": 3, "versions": 3},
			ExpectReach: []string{"end"}, NoNative: envNote, Desc: "at rest: " + n}
		if n == "KEKList" {
			h.ThoroughParams = map[string]int{"secrets": 2, "versions": 3} // listing three symbolic names sorts them: thousands of orderings for no new behaviour
		}
		c05.Harnesses = append(c05.Harnesses, h)
	}
	propRegistry = append(propRegistry, c05)
}

func init() {
	c18 := &Property{ID: "C18", Pkgs: []string{"db"}, Bounds: map[string]string{"base64 kernel": "every byte vector of length 0..4 (quick) / 0..6 (thorough), bytes symbolic", "copy-in/out": "values of length 0..2, arbitrary valid database state 2x2"}}
	c18.Harnesses = append(c18.Harnesses,
		&HarnessSpec{Name: "verifHarnessC18Base64", Pkg: "db", Stubs: dbStubs, Params: map[string]int{"rawlen": 9}, ThoroughParams: map[string]int{"rawlen": 16},
			ExpectReach: []string{"end"}, Desc: "byteString.UnmarshalText(MarshalText(b)) == b through the real encoding/base64 (SSA interpreted, table lookups as ite chains)"},
		&HarnessSpec{Name: "verifHarnessC18CopyInOut", Pkg: "db", Stubs: dbStubs, Params: map[string]int{"secrets": 2, "versions": 2, "vallen": 2},
			ExpectReach: []string{"end"}, Desc: "Put copies the caller's buffer in; GetVersion copies out (mutating either side changes nothing)"})
	propRegistry = append(propRegistry, c18)
}
