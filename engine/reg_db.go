package main

var dbStubs = map[string]string{
	"(github.com/tailscale/setec/acl.Rules).Allow": "verifAllowAll",
	"tailscale.com/atomicfile.WriteFile":            "verifAtomicWrite",
}

func init() {
	propRegistry = append(propRegistry, &Property{
		ID:   "C02",
		Pkgs: []string{"db"},
		Harnesses: []*HarnessSpec{
			{Name: "verifHarnessC02Put", Pkg: "db", Stubs: dbStubs, Params: map[string]int{"secrets": 2, "versions": 3},
				ThoroughParams: map[string]int{"secrets": 3, "versions": 4},
				ExpectReach:    []string{"end-error", "end-first", "end-dedupe", "end-new-version"},
				Desc:           "one DB.Put step from an arbitrary valid kv state, against the map model"},
		},
		Bounds: map[string]string{"secrets_per_state": "2 (quick) / 3 (thorough)", "versions_per_secret": "3 / 4",
			"names,values": "SMT strings of any length", "version numbers": "any 32-bit value, LatestVersion < 2^32-1"},
	})
}
