package main

func init() {
	c07 := &Property{ID: "C07", Pkgs: []string{"acl"},
		Bounds: map[string]string{"stars": "0..2 (quick) / 0..3 (thorough)", "piece length": "<= 3 code points", "name length": "<= 8 / <= 12 code points",
			"alphabet": "all Unicode scalar values (SMT string theory), no sampling", "rule sets": "<= 2 rules x <= 2 actions x <= 2 patterns, nil and empty slices included"}}
	for k, n := range []string{"Match0", "Match1", "Match2", "Match3"} {
		h := &HarnessSpec{Name: "verifHarnessC07" + n, Pkg: "acl", Params: map[string]int{"piecelen": 3, "namelen": 8},
			ThoroughParams: map[string]int{"piecelen": 3, "namelen": 12}, ExpectReach: []string{"end"},
			Desc: "acl.Secret.Match == glob semantics for patterns with " + string(rune('0'+k)) + " stars (symbolic pieces and name; regexp source parsed by the real regexp/syntax)"}
		if k == 3 {
			h.Tiers = "thorough"
		}
		c07.Harnesses = append(c07.Harnesses, h)
	}
	c07.Harnesses = append(c07.Harnesses, &HarnessSpec{Name: "verifHarnessC07Rules", Pkg: "acl",
		Stubs:  map[string]string{"(github.com/tailscale/setec/acl.Secret).Match": "verifMatchUF"},
		Params: map[string]int{"rules": 2, "actions": 2, "patterns": 2}, ExpectReach: []string{"end"},
		Desc: "Rules.Allow == exists rule (action listed and some pattern matches), Match uninterpreted; pure; monotone"})
	c07.Harnesses = append(c07.Harnesses, &HarnessSpec{Name: "verifHarnessC07RuleReal", Pkg: "acl",
		Params: map[string]int{"piecelen": 2, "namelen": 6}, ThoroughParams: map[string]int{"piecelen": 3, "namelen": 8}, ExpectReach: []string{"end"},
		Desc: "one rule with two real patterns (0 or 1 star each): Rule.Allow == action listed and (glob(p1) or glob(p2)), whatever way the implementation combines the patterns"})
	propRegistry = append(propRegistry, c07)
}
