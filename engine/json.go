package main

import (
	"fmt"
	"go/types"
	"reflect"
	"strings"
	"unicode/utf8"

	"golang.org/x/tools/go/ssa"
)

// Contract-level model of encoding/json (DESIGN §4.2): Marshal builds a
// structured blob JSON⟨T, snapshot⟩; Unmarshal of such a blob into a target
// follows encoding/json's key matching rules over go/types (field names and
// tags are read from the current source, so a renamed or re-tagged field
// changes the result).  Syntax-level behaviour of real JSON text is outside.

func registerJSON() {
	intrinsics["encoding/json.Marshal"] = iJSONMarshal
	intrinsics["encoding/json.Unmarshal"] = iJSONUnmarshal
	intrinsics["encoding/json.NewEncoder"] = iJSONNewEncoder
	intrinsics["(*encoding/json.Encoder).Encode"] = iJSONEncode
	intrinsics["(*encoding/json.Decoder).Token"] = iJSONToken
	intrinsics["(*encoding/json.Decoder).More"] = iJSONMore
	intrinsics["unicode/utf8.ValidString"] = iUTF8ValidString
	intrinsics["encoding/json.NewDecoder"] = iJSONNewDecoder
	intrinsics["(*encoding/json.Decoder).Decode"] = iJSONDecode
}

func iJSONMarshal(in *Interp, fn *ssa.Function, a []Value) Value {
	v := a[0].(Iface)
	b := &Blob{Kind: "JSON", Type: v.T, ID: in.newID()}
	b.Parts = []Value{in.snapshot(v.V, map[interface{}]Value{})}
	if len(in.illFormed) > 0 {
		// encoding/json replaces invalid UTF-8 in map keys and string values by U+FFFD: strings the harness marked as
		// possibly ill-formed leave the encoder as a (possibly) different string
		b.Parts[0] = in.coerceText(b.Parts[0], map[interface{}]bool{})
	}
	in.trace = append(in.trace, fmt.Sprintf("json.Marshal(%s) -> blob#%d", typeStr(v.T), b.ID))
	return Tuple{in.blobSlice(b), Iface{}}
}

func typeStr(t types.Type) string {
	if t == nil {
		return "nil"
	}
	return types.TypeString(t, func(p *types.Package) string { return p.Name() })
}

func iJSONUnmarshal(in *Interp, fn *ssa.Function, a []Value) Value {
	data := a[0].(Slice)
	tgt := a[1].(Iface)
	return in.jsonUnmarshal(data, tgt)
}

func (in *Interp) jsonUnmarshal(data Slice, tgt Iface) Value {
	r := in.jsonUnmarshal1(data, tgt)
	if !isNilValue(r) {
		pGhostLog(in, nil, []Value{mkStr("json.decode.failed")})
	}
	return r
}

func (in *Interp) jsonUnmarshal1(data Slice, tgt Iface) Value {
	pt, ok := tgt.T.(*types.Pointer)
	if !ok {
		return in.makeErrorString(mkStr("json: Unmarshal(non-pointer)"))
	}
	dst := tgt.V.(*Value)
	if dst == nil {
		return in.makeErrorString(mkStr("json: Unmarshal(nil)"))
	}
	if data.Seq != nil && data.Seq.Blob != nil {
		b := data.Seq.Blob
		if b.Kind != "JSON" {
			return in.makeErrorString(mkStr("json: invalid character (not a JSON document)"))
		}
		src := in.snapshot(b.Parts[0], map[interface{}]Value{})
		if err := in.jsonAssign(dst, pt.Elem(), src, b.Type); err != "" {
			return in.makeErrorString(mkStr("json: cannot unmarshal: " + err))
		}
		return Iface{}
	}
	if data.Seq == nil && len(data.A) == 0 {
		return in.makeErrorString(mkStr("json: unexpected end of JSON input"))
	}
	return in.jsonArbitrary(data, dst, pt.Elem(), false)
}

// jsonClass: syntactic class of arbitrary bytes as an uninterpreted function of their content:
// 0 = exactly one JSON value (plus white space), 1 = one JSON value followed by other bytes, 2 = anything else.
func (in *Interp) jsonClass(data Slice) Term {
	if data.Seq == nil || data.Seq.Blob != nil {
		if data.Seq != nil {
			return mkInt(0)
		}
		t := in.bytesToString(data)
		if t.C && t.Str == "" {
			return mkInt(2)
		}
		data = Slice{Seq: &SeqObj{T: symOrConstStr(t)}}
	}
	if !in.jsonClassDeclared {
		in.sess.Cmd("(declare-fun jsonclass (String) Int)")
		// the few facts about real JSON syntax the model needs: the empty input is no document, {} is one, {} followed by x is one with trailing bytes
		in.sess.Cmd(`(assert (and (= (jsonclass "") 2) (= (jsonclass "{}") 0) (= (jsonclass "{} x") 1) (= (jsonclass "x") 2) (= (jsonclass "null") 0) (= (jsonclass "null x") 1)))`)
		in.jsonClassDeclared = true
	}
	ts := data.Seq.T.smt()
	c := symInt("(jsonclass " + ts + ")")
	in.assume(tAnd(intCmp(">=", c, mkInt(0)), intCmp("<=", c, mkInt(2))))
	// for native replay prefer a concrete representative of the class
	in.hints = append(in.hints, fmt.Sprintf(`(and (=> (= %s 0) (= %s "{}")) (=> (= %s 1) (= %s "{} x")) (=> (= %s 2) (= %s "x")))`, c.E, ts, c.E, ts, c.E, ts))
	return c
}

// jsonArbitrary models decoding bytes the model cannot see into. stream=false: json.Unmarshal (the whole input must be
// one value); stream=true: Decoder.Decode (reads the first value, ignores what follows).
func (in *Interp) jsonArbitrary(data Slice, dst *Value, et types.Type, stream bool) Value {
	cls := in.jsonClass(data)
	wellFormed := tEq(cls, mkInt(0))
	if stream {
		wellFormed = tOr(wellFormed, tEq(cls, mkInt(1)))
	}
	if !in.branch(wellFormed) {
		return in.makeErrorString(mkStr("json: invalid document")) // syntax errors leave the target untouched
	}
	// syntactically fine: it fits the target, or it is the literal null, or a type error is reported after a partial fill
	switch in.choose([]Term{in.freshBool("json.arbitrary.ok"), in.freshBool("json.arbitrary.null"), mkBool(true)}) {
	case 0:
		*dst = in.havoc(et, "jsondoc", 0)
		return Iface{}
	case 1:
		// the JSON value null: maps, pointers, slices and interfaces are set to nil, anything else is left alone; no error
		if data.Seq != nil && data.Seq.Blob == nil {
			ts := data.Seq.T
			if stream {
				in.assume(tOr(tEq(ts, mkStr("null")), tEq(ts, mkStr("null x"))))
			} else {
				in.assume(tEq(ts, mkStr("null")))
			}
		}
		switch et.Underlying().(type) {
		case *types.Map, *types.Pointer, *types.Slice, *types.Interface:
			*dst = in.zero(et)
		}
		in.trace = append(in.trace, "json: the document is the literal null")
		return Iface{}
	}
	if in.branch(in.freshBool("json.arbitrary.partial")) {
		*dst = in.havoc(et, "jsonpartial", 0)
	}
	return in.makeErrorString(mkStr("json: ill-typed document"))
}

func iJSONNewEncoder(in *Interp, fn *ssa.Function, a []Value) Value {
	p := new(Value)
	errCell := new(Value) // the encoder's sticky error: read by every Encode, written by the first failing Write
	*errCell = Iface{}
	*p = &Opaque{Kind: "json.Encoder", Fields: map[string]Value{"w": a[0], "err": errCell}, ID: in.newID()}
	return p
}

func iJSONEncode(in *Interp, fn *ssa.Function, a []Value) Value {
	enc := (*a[0].(*Value)).(*Opaque)
	if errCell, ok := enc.Fields["err"].(*Value); ok {
		in.raceNote(errCell, false)
		if prev, isI := (*errCell).(Iface); isI && prev.T != nil {
			return prev // an Encoder keeps returning its first write error
		}
	}
	res := iJSONMarshal(in, fn, []Value{a[1]}).(Tuple)
	if sl, ok := res[0].(Slice); ok && sl.Seq != nil && sl.Seq.Blob != nil {
		sl.Seq.Blob.Line = true // Encode writes the document and a newline in one Write
	}
	w := enc.Fields["w"].(Iface)
	if w.T == nil {
		panic(goPanic{msg: "nil writer"})
	}
	m := in.L.prog.LookupMethod(w.T, nil, "Write")
	if m == nil {
		panic(abort("Encoder: writer has no Write method: " + w.T.String()))
	}
	r := in.call(m, []Value{w.V, res[0]}).(Tuple)
	if errCell, ok := enc.Fields["err"].(*Value); ok && !isNilValue(r[1]) {
		in.raceNote(errCell, true)
		*errCell = r[1]
	}
	return r[1]
}

func iJSONNewDecoder(in *Interp, fn *ssa.Function, a []Value) Value {
	p := new(Value)
	*p = &Opaque{Kind: "json.Decoder", Fields: map[string]Value{"r": a[0]}, ID: in.newID()}
	return p
}

// Decode reads the request body. The harness supplies a reader whose dynamic
// value is a *verifBody{doc []byte}; otherwise the document is arbitrary.
func iJSONDecode(in *Interp, fn *ssa.Function, a []Value) Value {
	dec := (*a[0].(*Value)).(*Opaque)
	r := dec.Fields["r"].(Iface)
	tgt := a[1].(Iface)
	if r.T != nil {
		if sel := in.L.prog.MethodSets.MethodSet(r.T).Lookup(nil, "VerifDoc"); sel != nil {
			m := in.L.prog.MethodValue(sel)
			doc := in.call(m, []Value{r.V}).(Slice)
			dec.Fields["doc"] = doc
			// Decoder.Decode reads the FIRST value of the stream and does not look at what follows it
			return in.decodeResult(in.jsonStream(doc, tgt), doc)
		}
		// a *bytes.Reader over known bytes: the stream's first value is decoded, trailing bytes are not looked at
		if types.TypeString(r.T, nil) == "*bytes.Reader" {
			if p, ok := r.V.(*Value); ok && p != nil {
				if st, ok := (*p).(Struct); ok && len(st) > 0 {
					if bs, ok := st[0].(Slice); ok {
						return in.jsonStream(bs, tgt)
					}
				}
			}
		}
	}
	return in.jsonUnmarshal(Slice{Seq: &SeqObj{T: in.freshStr("body"), Len: mkBV(64, 1)}}, tgt)
}

// Token after a successful Decode: io.EOF exactly when nothing but white space follows the value that was decoded
// (class 0); otherwise a token or a syntax error, neither of which is io.EOF.
func iJSONToken(in *Interp, fn *ssa.Function, a []Value) Value {
	dec := (*a[0].(*Value)).(*Opaque)
	eof := func() Value {
		g := in.L.prog.ImportedPackage("io").Var("EOF")
		return Tuple{Iface{}, copyVal(*in.globalAddr(g))}
	}
	doc, ok := dec.Fields["doc"].(Slice)
	if !ok {
		panic(abort("Decoder.Token on a stream the model has not decoded from"))
	}
	if doc.Seq != nil && doc.Seq.Blob != nil {
		return eof() // a document marshalled by the model is exactly one value
	}
	if in.branch(tEq(in.jsonClass(doc), mkInt(0))) {
		return eof()
	}
	if in.branch(in.freshBool("json.trailing.bytes.are.a.token")) {
		return Tuple{in.havoc(fn.Signature.Results().At(0).Type(), "jsontoken", 0), Iface{}}
	}
	return Tuple{Iface{}, in.makeErrorString(mkStr("json: invalid character after top-level value"))}
}

// More (after the first value was decoded): is there another element in the stream? It reports false at the end of the
// input AND when the next byte that is not white space is a closing bracket or brace -- whatever follows that byte.
func iJSONMore(in *Interp, fn *ssa.Function, a []Value) Value {
	dec := (*a[0].(*Value)).(*Opaque)
	doc, ok := dec.Fields["doc"].(Slice)
	if !ok {
		panic(abort("Decoder.More on a stream the model has not decoded from"))
	}
	if doc.Seq != nil && doc.Seq.Blob != nil {
		return mkBool(false) // a document marshalled by the model is exactly one value
	}
	if in.branch(tEq(in.jsonClass(doc), mkInt(0))) {
		return mkBool(false)
	}
	if in.branch(in.freshBool("json.trailing.bytes.start.with.a.closer")) {
		return mkBool(false)
	}
	return mkBool(true)
}

func (in *Interp) jsonStream(data Slice, tgt Iface) Value {
	if data.Seq != nil && data.Seq.Blob != nil {
		return in.jsonUnmarshal(data, tgt)
	}
	pt, ok := tgt.T.(*types.Pointer)
	dst, _ := tgt.V.(*Value)
	if !ok || dst == nil {
		return in.makeErrorString(mkStr("json: Decode(non-pointer)"))
	}
	if data.Seq == nil && len(data.A) == 0 {
		g := in.L.prog.ImportedPackage("io").Var("EOF")
		return copyVal(*in.globalAddr(g))
	}
	r := in.jsonArbitrary(data, dst, pt.Elem(), true)
	if !isNilValue(r) {
		pGhostLog(in, nil, []Value{mkStr("json.decode.failed")})
	}
	return r
}

// decodeResult: Decoder.Decode on an empty (or whitespace-only) stream returns exactly io.EOF; other undecodable
// documents return some other error. Both are outcomes of "the body is not a JSON document".
func (in *Interp) decodeResult(err Value, doc Slice) Value {
	if isNilValue(err) {
		return err
	}
	if doc.Seq != nil && doc.Seq.Blob != nil {
		return err // a structured document is never empty
	}
	if in.branch(in.freshBool("body.is.empty")) {
		g := in.L.prog.ImportedPackage("io").Var("EOF")
		return copyVal(*in.globalAddr(g))
	}
	return err
}

// ---------- json kinds ----------

type jfield struct {
	key   string
	idx   int
	typ   types.Type
	asStr bool
	omit  bool
}

func jsonFields(st *types.Struct) ([]jfield, string) {
	var out []jfield
	for i := 0; i < st.NumFields(); i++ {
		f := st.Field(i)
		if !f.Exported() {
			continue
		}
		if f.Embedded() {
			return nil, "embedded struct field " + f.Name() + " not modelled"
		}
		tag := reflect.StructTag(st.Tag(i)).Get("json")
		if tag == "-" {
			continue
		}
		name := f.Name()
		parts := strings.Split(tag, ",")
		if parts[0] != "" {
			name = parts[0]
		}
		jf := jfield{key: name, idx: i, typ: f.Type()}
		for _, o := range parts[1:] {
			if o == "string" {
				jf.asStr = true
			}
			if o == "omitempty" {
				jf.omit = true
			}
		}
		out = append(out, jf)
	}
	return out, ""
}

func (in *Interp) hasTextMarshal(t types.Type) bool {
	if _, ok := t.(*types.Named); !ok {
		return false
	}
	if isTimeType(t) {
		return false
	}
	for _, tt := range []types.Type{t, types.NewPointer(t)} {
		ms := in.L.prog.MethodSets.MethodSet(tt)
		for i := 0; i < ms.Len(); i++ {
			n := ms.At(i).Obj().Name()
			if n == "MarshalText" || n == "UnmarshalText" || n == "MarshalJSON" || n == "UnmarshalJSON" {
				return true
			}
		}
	}
	return false
}

func (in *Interp) jsonKind(t types.Type, asStr bool) string {
	if isTimeType(t) {
		return "time"
	}
	if in.hasTextMarshal(t) {
		return "text"
	}
	switch u := t.Underlying().(type) {
	case *types.Basic:
		switch {
		case u.Info()&types.IsBoolean != 0:
			return "bool"
		case u.Info()&types.IsString != 0:
			return "string"
		case u.Info()&types.IsInteger != 0:
			if asStr {
				return "numstr"
			}
			return "number"
		case u.Info()&types.IsFloat != 0:
			return "number"
		}
	case *types.Struct:
		return "object"
	case *types.Map:
		return "map"
	case *types.Slice:
		if b, ok := u.Elem().Underlying().(*types.Basic); ok && b.Kind() == types.Uint8 {
			return "bytes"
		}
		return "array"
	case *types.Array:
		return "array"
	case *types.Interface:
		return "any"
	case *types.Pointer:
		return in.jsonKind(u.Elem(), asStr)
	}
	return "unsupported:" + t.String()
}

// jsonAssign decodes the document (src of Go type st) into *dst of type dt.
func (in *Interp) jsonAssign(dst *Value, dt types.Type, src Value, st types.Type) string {
	return in.jsonAssign2(dst, dt, false, src, st, false)
}

func (in *Interp) jsonAssign2(dst *Value, dt types.Type, dStr bool, src Value, st types.Type, sStr bool) string {
	// source pointers
	for {
		if it, ok := src.(Iface); ok {
			if it.T == nil {
				src, st = nil, nil
				break
			}
			src, st = it.V, it.T
			continue
		}
		sp, ok := st.Underlying().(*types.Pointer)
		if !ok || in.hasTextMarshal(st) {
			break
		}
		p := src.(*Value)
		if p == nil {
			src, st = nil, nil
			break
		}
		src, st = *p, sp.Elem()
	}
	if st == nil { // JSON null
		switch dt.Underlying().(type) {
		case *types.Pointer, *types.Map, *types.Slice, *types.Interface:
			*dst = in.zero(dt)
		}
		return ""
	}
	// a nil map or slice marshals as null
	switch s := src.(type) {
	case *MapObj:
		if s == nil {
			return in.jsonAssign2(dst, dt, dStr, nil, nil, false)
		}
	case Slice:
		if s.Nil {
			return in.jsonAssign2(dst, dt, dStr, nil, nil, false)
		}
	}
	// destination pointers
	if dp, ok := dt.Underlying().(*types.Pointer); ok && !in.hasTextMarshal(dt) {
		cur, _ := (*dst).(*Value)
		if cur == nil {
			cur = new(Value)
			*cur = in.zero(dp.Elem())
			*dst = cur
		}
		return in.jsonAssign2(cur, dp.Elem(), dStr, src, st, sStr)
	}
	dk, sk := in.jsonKind(dt, dStr), in.jsonKind(st, sStr)
	if strings.HasPrefix(dk, "unsupported") || strings.HasPrefix(sk, "unsupported") {
		panic(abort("json model: " + dk + " / " + sk))
	}
	if dk == "any" {
		panic(abort("json model: decoding into interface{}"))
	}
	if dk != sk {
		return fmt.Sprintf("%s value into Go value of kind %s (%s)", sk, dk, typeStr(dt))
	}
	switch dk {
	case "bool", "string":
		*dst = src
		return ""
	case "number", "numstr":
		// numeric range: widths must agree for an exact model
		s, d := src.(Term), in.zero(dt).(Term)
		if s.S == SInt {
			*dst = s
			return ""
		}
		if s.W != d.W || isSigned(st) != isSigned(dt) {
			// value must fit: model as conversion with an overflow error fork
			conv := bvConv(s, d.W, isSigned(st))
			back := bvConv(conv, s.W, isSigned(dt))
			if !in.branch(tEq(back, s)) {
				return "number out of range"
			}
			*dst = conv
			return ""
		}
		*dst = s
		return ""
	case "time":
		*dst = src
		return ""
	case "bytes":
		s := src.(Slice)
		*dst = in.snapshot(s, map[interface{}]Value{})
		return ""
	case "array":
		s, ok := src.(Slice)
		if !ok {
			panic(abort("json model: array of non-slice"))
		}
		et := dt.Underlying().(*types.Slice).Elem()
		set := st.Underlying().(*types.Slice).Elem()
		out := make([]Value, len(s.A))
		for i := range s.A {
			out[i] = in.zero(et)
			if e := in.jsonAssign2(&out[i], et, false, s.A[i], set, false); e != "" {
				return e
			}
		}
		*dst = Slice{A: out}
		return ""
	case "object":
		ds, ss := dt.Underlying().(*types.Struct), st.Underlying().(*types.Struct)
		df, e1 := jsonFields(ds)
		sf, e2 := jsonFields(ss)
		if e1 != "" || e2 != "" {
			panic(abort("json model: " + e1 + e2))
		}
		dstS, ok := (*dst).(Struct)
		if !ok {
			panic(abort(fmt.Sprintf("json model: object into %T", *dst)))
		}
		srcS := src.(Struct)
		for _, f := range sf {
			// encoding/json prefers an exact key match, else case-insensitive
			var tgt *jfield
			for i := range df {
				if df[i].key == f.key {
					tgt = &df[i]
					break
				}
			}
			if tgt == nil {
				for i := range df {
					if strings.EqualFold(df[i].key, f.key) {
						tgt = &df[i]
						break
					}
				}
			}
			if tgt == nil {
				continue // unknown keys are ignored
			}
			if f.omit && in.isZeroConcrete(srcS[f.idx]) {
				continue
			}
			if e := in.jsonAssign2(&dstS[tgt.idx], tgt.typ, tgt.asStr, srcS[f.idx], f.typ, f.asStr); e != "" {
				return e
			}
		}
		return ""
	case "map":
		dm, sm := dt.Underlying().(*types.Map), st.Underlying().(*types.Map)
		if in.jsonKeyKind(dm.Key()) != in.jsonKeyKind(sm.Key()) {
			return "map key kinds differ"
		}
		s := src.(*MapObj)
		cur, _ := (*dst).(*MapObj)
		if cur == nil {
			cur = &MapObj{T: dm, ID: in.newID()}
			*dst = cur
		} else if len(cur.Slots) != 0 {
			panic(abort("json model: decoding into a non-empty map"))
		}
		cur.WriteCnt++
		for _, sl := range s.Slots {
			nv := in.zero(dm.Elem())
			if e := in.jsonAssign2(&nv, dm.Elem(), false, sl.V, sm.Elem(), false); e != "" {
				return e
			}
			k := sl.K
			if kt, ok := k.(Term); ok && kt.S == SBV {
				dz := in.zero(dm.Key()).(Term)
				if dz.W != kt.W {
					k = bvConv(kt, dz.W, false)
				}
			}
			cur.Slots = append(cur.Slots, &MapSlot{K: k, V: nv, P: sl.P})
		}
		return ""
	}
	if dk == "text" {
		*dst = src
		return ""
	}
	panic(abort("json model: kind " + dk))
}

func (in *Interp) jsonKeyKind(t types.Type) string {
	if b, ok := t.Underlying().(*types.Basic); ok {
		if b.Info()&types.IsString != 0 {
			return "string"
		}
		if b.Info()&types.IsInteger != 0 {
			return "int"
		}
	}
	return "unsupported"
}

func (in *Interp) isZeroConcrete(v Value) bool {
	switch x := v.(type) {
	case Term:
		if !x.C {
			return false
		}
		switch x.S {
		case SBool:
			return !x.B
		case SStr:
			return x.Str == ""
		default:
			return x.U == 0
		}
	case Slice:
		return x.Nil || (x.Seq == nil && len(x.A) == 0)
	case *Value:
		return x == nil
	case *MapObj:
		return x == nil || len(x.Slots) == 0
	}
	return false
}

// havoc builds an arbitrary bounded value of a type (used for documents the model cannot see into).
func (in *Interp) havoc(t types.Type, tag string, depth int) Value {
	if depth > 6 {
		return in.zero(t)
	}
	if isTimeType(t) {
		return TimeV{NS: in.freshInt(tag + ".time")}
	}
	switch u := t.Underlying().(type) {
	case *types.Basic:
		switch {
		case u.Info()&types.IsBoolean != 0:
			return in.freshBool(tag)
		case u.Info()&types.IsString != 0:
			return in.freshStr(tag)
		case u.Info()&types.IsInteger != 0:
			return in.freshBV(tag, intWidth(u))
		}
		return in.zero(t)
	case *types.Pointer:
		if in.branch(in.freshBool(tag + ".nil")) {
			return (*Value)(nil)
		}
		p := new(Value)
		*p = in.havoc(u.Elem(), tag+".p", depth+1)
		return p
	case *types.Struct:
		s := make(Struct, u.NumFields())
		fields, _ := jsonFields(u)
		decoded := map[int]bool{}
		for _, f := range fields {
			decoded[f.idx] = true
		}
		for i := range s {
			if decoded[i] {
				s[i] = in.havoc(u.Field(i).Type(), tag+"."+u.Field(i).Name(), depth+1)
			} else {
				s[i] = in.zero(u.Field(i).Type())
			}
		}
		return s
	case *types.Slice:
		if b, ok := u.Elem().Underlying().(*types.Basic); ok && b.Kind() == types.Uint8 {
			tm := in.freshStr(tag + ".bytes")
			return Slice{Seq: &SeqObj{T: tm, Len: strLen(tm)}}
		}
		n := 1
		a := make([]Value, n)
		for i := range a {
			a[i] = in.havoc(u.Elem(), fmt.Sprintf("%s[%d]", tag, i), depth+1)
		}
		return Slice{A: a}
	case *types.Map:
		m := &MapObj{T: u, ID: in.newID()}
		n := 2
		if in.spec != nil && in.spec.Params["havocMapSlots"] > 0 {
			n = in.spec.Params["havocMapSlots"]
		}
		for i := 0; i < n; i++ {
			k := in.havoc(u.Key(), fmt.Sprintf("%s.k%d", tag, i), depth+1)
			p := in.freshBool(fmt.Sprintf("%s.p%d", tag, i))
			for _, s := range m.Slots {
				in.assume(tImplies(tAnd(p, s.P), tNot(in.valEq(s.K, k))))
			}
			v := in.havoc(u.Elem(), fmt.Sprintf("%s.v%d", tag, i), depth+1)
			m.Slots = append(m.Slots, &MapSlot{K: k, V: v, P: p})
		}
		return m
	}
	return in.zero(t)
}

// ---------- ill-formed text ----------
//
// SMT strings are sequences of code points: a Go string that is not valid UTF-8 has no counterpart. The harness can
// mark a symbolic string as "possibly ill-formed" under a condition c (illFormedIf). The only places where that matters
// are modelled: utf8.ValidString answers not(c), and encoding/json's encoder rewrites such a string to utf8fix(s), an
// uninterpreted string that differs from s whenever c holds (U+FFFD replacement; two different ill-formed strings may
// collide).

func (in *Interp) utf8Fix(t Term) Term {
	if t.S != SStr || t.C {
		return t
	}
	c, ok := in.illFormed[t.smt()]
	if !ok {
		return t
	}
	if !in.utf8fixDeclared {
		in.sess.Cmd("(declare-fun utf8fix (String) String)")
		in.utf8fixDeclared = true
	}
	in.trace = append(in.trace, "json encoder: a possibly ill-formed string is rewritten")
	fx := "(utf8fix " + t.smt() + ")"
	in.assume(symBool("(=> " + c.smt() + " (not (= " + fx + " " + t.smt() + ")))"))
	return symStr("(ite " + c.smt() + " " + fx + " " + t.smt() + ")")
}

func (in *Interp) coerceText(v Value, seen map[interface{}]bool) Value {
	switch x := v.(type) {
	case Term:
		return in.utf8Fix(x)
	case Struct:
		for i := range x {
			x[i] = in.coerceText(x[i], seen)
		}
		return x
	case Array:
		for i := range x {
			x[i] = in.coerceText(x[i], seen)
		}
		return x
	case Tuple:
		for i := range x {
			x[i] = in.coerceText(x[i], seen)
		}
		return x
	case Slice:
		for i := range x.A {
			x.A[i] = in.coerceText(x.A[i], seen)
		}
		return x
	case *Value:
		if x == nil || seen[x] {
			return x
		}
		seen[x] = true
		*x = in.coerceText(*x, seen)
		return x
	case *MapObj:
		if x == nil || seen[x] {
			return x
		}
		seen[x] = true
		for _, s := range x.Slots {
			s.K = in.coerceText(s.K, seen)
			s.V = in.coerceText(s.V, seen)
		}
		return x
	case Iface:
		x.V = in.coerceText(x.V, seen)
		return x
	}
	return v
}

func pIllFormedIf(in *Interp, fn *ssa.Function, a []Value) Value {
	t := a[0].(Term)
	if t.C {
		return nil
	}
	if in.illFormed == nil {
		in.illFormed = map[string]Term{}
	}
	in.illFormed[t.smt()] = a[1].(Term)
	return nil
}

func iUTF8ValidString(in *Interp, fn *ssa.Function, a []Value) Value {
	t := a[0].(Term)
	if bs, ok := strConcreteBytes(t); ok {
		return mkBool(utf8.Valid(bs))
	}
	if c, ok := in.illFormed[t.smt()]; ok {
		return tNot(c)
	}
	return mkBool(true) // an SMT string is a sequence of code points
}
