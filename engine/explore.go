package main

import (
	"fmt"
	"go/constant"
	"go/token"
	"os"
	"path/filepath"
	"sort"
	"strings"
	"sync"
	"time"

	"golang.org/x/tools/go/ssa"
)

type HarnessSpec struct {
	Name             string // entry function in the harness package
	Prop             string
	Pkg              string // repo-relative package dir
	Stubs            map[string]string
	Unwind           int
	UnwindFn         map[string]int
	MaxSteps         int
	MaxPaths         int
	DeadOK           map[string]string // assertion label -> why it is legitimately never evaluated at this tier
	Params           map[string]int
	ThoroughParams   map[string]int
	ReverseMaps      bool
	ExpectReach      []string
	Tiers            string // "" = both, "thorough" = thorough only
	Desc             string
	NoPanic          bool // uncaught Go panics are violations (default true unless ExpectPanicOK)
	PanicOK          bool
	NoNative         string // non-empty: why a native replay is impossible (model-only report)
	ReplayTags       string
	ReplayEnv        []string
	PanicIsViolation bool
	ReplayRepeat     int
	Solver           string            // primary solver for this harness (default: the run's)
	ModelOnlyLabels  map[string]string // assertion label -> why its counterexamples cannot be realised by the native harness
}

type Options struct {
	Tier              string
	Workers           int
	TimeoutMS         int
	Solver            string
	CrossSolvers      []string
	CrossEvery        int
	Seed              int64
	LogDir            string
	Verbose           bool
	OnlyHarness       string
	known             []KnownFinding
	WitnessPerHarness int
	HarnessWall       time.Duration // exploration budget per harness; exceeding it is reported as "path budget exhausted" (inconclusive)
}

type Sample struct {
	Harness   string  `json:"harness"`
	Label     string  `json:"assertion"`
	Decisions []int   `json:"path_decisions"`
	Verdict   string  `json:"verdict"`
	QuerySize int     `json:"query_chars"`
	Millis    float64 `json:"solver_ms"`
}

type HarnessResult struct {
	mu          sync.Mutex
	Spec        *HarnessSpec
	Paths       int
	Outcomes    map[string]int
	Decisions   int
	Violations  []*Violation
	Aborts      map[string]int
	Unknowns    map[string]int
	Reached     map[string]int
	Funcs       map[string]int
	FuncPos     map[string]string
	Stubs       map[string]int
	Asserts     map[string]map[string]int
	Samples     []Sample
	Steps       int
	crossN      int
	CrossDis    []string
	Wall        time.Duration
	Truncated   bool
	LockOrders  map[string]bool
	Assumes     int
	Witnesses   []*Violation
	FeasUnknown int
	Fallbacks   map[string]int
	seenFns     map[*ssa.Function]bool
	DeadAsserts []string
}

func newHarnessResult(spec *HarnessSpec) *HarnessResult {
	return &HarnessResult{Spec: spec, Outcomes: map[string]int{}, Aborts: map[string]int{}, Unknowns: map[string]int{},
		Reached: map[string]int{}, Funcs: map[string]int{}, FuncPos: map[string]string{}, Stubs: map[string]int{},
		Asserts: map[string]map[string]int{}, LockOrders: map[string]bool{}}
}

func (R *HarnessResult) noteAssert(in *Interp, label, verdict string, size int, dt time.Duration) {
	R.mu.Lock()
	defer R.mu.Unlock()
	m := R.Asserts[label]
	if m == nil {
		m = map[string]int{}
		R.Asserts[label] = m
	}
	m[verdict]++
	if verdict != "trivially-true" && verdict != "shared-prefix" && len(R.Samples) < 400 {
		R.Samples = append(R.Samples, Sample{Harness: R.Spec.Name, Label: label, Decisions: append([]int{}, in.decisions...),
			Verdict: verdict, QuerySize: size, Millis: float64(dt.Microseconds()) / 1000})
	}
}

func (R *HarnessResult) crossDue(every int) bool {
	R.mu.Lock()
	defer R.mu.Unlock()
	R.crossN++
	return R.crossN%every == 1 || every == 1
}

func (R *HarnessResult) crossDisagree(in *Interp, label, solver string) {
	R.mu.Lock()
	defer R.mu.Unlock()
	R.CrossDis = append(R.CrossDis, fmt.Sprintf("%s/%s: %s says sat where primary says unsat", R.Spec.Name, label, solver))
}

func (R *HarnessResult) noteFallback(label string) {
	R.mu.Lock()
	defer R.mu.Unlock()
	if R.Fallbacks == nil {
		R.Fallbacks = map[string]int{}
	}
	R.Fallbacks[label]++
}

func (R *HarnessResult) addUnknown(in *Interp, label string) {
	R.mu.Lock()
	defer R.mu.Unlock()
	R.Unknowns[label]++
}

// gSlots bounds the number of paths executing at once across all harnesses.
var gSlots chan struct{}

type worklist struct {
	mu       sync.Mutex
	cond     *sync.Cond
	items    [][]int
	inflight int
	done     bool
}

func (w *worklist) push(ps ...[]int) {
	w.mu.Lock()
	w.items = append(w.items, ps...)
	w.mu.Unlock()
	w.cond.Broadcast()
}

func (w *worklist) pop() ([]int, bool) {
	w.mu.Lock()
	defer w.mu.Unlock()
	for len(w.items) == 0 {
		if w.inflight == 0 || w.done {
			w.done = true
			w.cond.Broadcast()
			return nil, false
		}
		w.cond.Wait()
	}
	p := w.items[len(w.items)-1]
	w.items = w.items[:len(w.items)-1]
	w.inflight++
	return p, true
}

func (w *worklist) finish() {
	w.mu.Lock()
	w.inflight--
	w.mu.Unlock()
	w.cond.Broadcast()
}

func newInterp(L *Loaded, spec *HarnessSpec, sess *Session, opts *Options, R *HarnessResult) *Interp {
	in := &Interp{L: L, spec: spec, sess: sess, opts: opts, res: R}
	return in
}

func (in *Interp) reset(prefix []int) {
	in.prefix = prefix
	in.decisions = in.decisions[:0]
	in.pending = nil
	in.fresh = map[string]int{}
	in.vars = nil
	in.globals = map[*ssa.Global]*Value{}
	in.initDone = map[*ssa.Package]bool{}
	in.mutexes = map[*Value]*Mutex{}
	in.guard = map[*Value]*Value{}
	in.frozen = map[*Value]string{}
	in.steps = 0
	in.depth = 0
	in.objID = 0
	in.trace = nil
	in.ghost = map[string]Value{}
	in.cur = nil
	in.violations = nil
	in.reached = map[string]bool{}
	in.funcsSeen = map[*ssa.Function]int{}
	in.stubsSeen = map[string]int{}
	in.spawned = nil
	in.pcN = 0
	in.heldLocks = map[*Value]bool{}
	in.lockOrder = map[string]bool{}
	in.splitOf = map[string][]Term{}
	in.ptrIDs = map[*Value]int{}
	in.unknownBranch = 0
	in.guardsOff = false
	in.quotedOf = map[string]Term{}
	in.rtypes = nil
	in.ordTerms = nil
	in.pureDeclared = nil
	in.bufs = nil
	in.pendingConc = nil
	in.strVecs = nil
	in.pools = nil
	in.raceOn, in.raceActor, in.raceCells = false, 0, nil
	in.onces = nil
	in.illFormed, in.utf8fixDeclared = nil, false
	in.blobStrs = nil
	in.blobByID = nil
	in.hints = nil
	in.jsonClassDeclared = false
	in.lockCount = map[*Value]int{}
}

func runHarness(L *Loaded, spec *HarnessSpec, opts *Options, nworkers int) *HarnessResult {
	R := newHarnessResult(spec)
	t0 := time.Now()
	entry := L.harnessFunc(spec.Pkg, spec.Name)
	if entry == nil {
		R.Aborts["harness entry not found: "+spec.Name]++
		return R
	}
	wl := &worklist{}
	wl.cond = sync.NewCond(&wl.mu)
	wl.items = [][]int{{}}
	maxPaths := spec.MaxPaths
	if maxPaths == 0 {
		maxPaths = 200000
	}
	var wg sync.WaitGroup
	for i := 0; i < nworkers; i++ {
		wg.Add(1)
		go func(id int) {
			defer wg.Done()
			logp := ""
			if opts.LogDir != "" {
				logp = fmt.Sprintf("%s/%s.%d.smt2", opts.LogDir, spec.Name, id)
			}
			solver := opts.Solver
			if spec.Solver != "" {
				solver = spec.Solver
			}
			sess, err := NewSession(solver, opts.TimeoutMS, logp)
			if err != nil {
				R.mu.Lock()
				R.Aborts["solver start: "+err.Error()]++
				R.mu.Unlock()
				return
			}
			defer sess.Close()
			in := newInterp(L, spec, sess, opts, R)
			for {
				p, ok := wl.pop()
				if !ok {
					return
				}
				R.mu.Lock()
				over := R.Paths >= maxPaths || R.Outcomes["unwind"]+R.Outcomes["abort"] > 200 || (opts.HarnessWall > 0 && time.Since(t0) > opts.HarnessWall)
				if over {
					R.Truncated = true
				}
				R.mu.Unlock()
				if over {
					wl.finish()
					continue
				}
				gSlots <- struct{}{}
				in.runPath(entry, p, R)
				<-gSlots
				wl.push(in.pending...)
				wl.finish()
			}
		}(i)
	}
	wg.Wait()
	R.Wall = time.Since(t0)
	return R
}

func (in *Interp) runPath(entry *ssa.Function, prefix []int, R *HarnessResult) {
	prev := append([]int{}, in.decisions...)
	in.reset(prefix)
	in.sess.StartPath(prev, prefix)
	outcome := "ok"
	func() {
		defer func() {
			r := recover()
			if r == nil {
				return
			}
			switch x := r.(type) {
			case pathEnd:
				outcome = x.kind
			case abortErr:
				outcome = "abort"
				R.mu.Lock()
				R.Aborts[x.msg+" @ "+in.where()]++
				R.mu.Unlock()
			case goPanic:
				outcome = "panic"
				if !in.spec.PanicOK {
					func() {
						defer func() { recover() }()
						in.reportViolation("no-panic", mkBool(true), "uncaught panic: "+x.msg+" @ "+x.where)
					}()
				}
			default:
				outcome = "engine-error"
				R.mu.Lock()
				R.Aborts[fmt.Sprintf("engine error: %v @ %s", r, in.where())]++
				R.mu.Unlock()
				if os.Getenv("GOSYM_DEBUG") != "" {
					panic(r)
				}
			}
		}()
		in.callFunction(entry, nil, nil)
	}()
	if outcome == "ok" && in.spec.NoNative == "" && len(in.violations) == 0 {
		R.mu.Lock()
		need := len(R.Witnesses) < in.opts.WitnessPerHarness
		R.mu.Unlock()
		if need {
			r, m := in.sess.CheckModel(in.niceStrings(), in.varNames(), "feas")
			if r != Sat {
				r, m = in.sess.CheckModel("", in.varNames(), "feas")
			}
			if r == Sat {
				w := &Violation{Harness: in.spec.Name, Label: "(witness)", Decisions: append([]int{}, in.decisions...), Model: m, Vars: append([]varDecl{}, in.vars...)}
				R.mu.Lock()
				R.Witnesses = append(R.Witnesses, w)
				R.mu.Unlock()
			}
		}
	}
	R.mu.Lock()
	defer R.mu.Unlock()
	R.Paths++
	if strings.HasPrefix(outcome, "unwind:") {
		R.Outcomes["unwind"]++
		R.Unknowns["unwinding assertion failed: "+outcome[7:]]++
	} else {
		R.Outcomes[outcome]++
	}
	R.Decisions += len(in.decisions)
	R.Steps += in.steps
	R.Violations = append(R.Violations, in.violations...)
	for l := range in.reached {
		R.Reached[l]++
	}
	for f, n := range in.funcsSeen {
		if R.seenFns == nil {
			R.seenFns = map[*ssa.Function]bool{}
		}
		R.seenFns[f] = true
		name := f.String()
		if _, ok := R.Funcs[name]; !ok {
			cnt := 0
			for _, b := range f.Blocks {
				cnt += len(b.Instrs)
			}
			R.Funcs[name] = cnt
			if f.Pos().IsValid() {
				p := in.L.prog.Fset.Position(f.Pos())
				R.FuncPos[name] = fmt.Sprintf("%s:%d", strings.TrimPrefix(p.Filename, repoDir+"/"), p.Line)
			}
		}
		_ = n
	}
	for s, n := range in.stubsSeen {
		R.Stubs[s] += n
	}
	for k := range in.lockOrder {
		R.LockOrders[k] = true
	}
	if in.unknownBranch > 0 {
		// keeping a branch whose feasibility is unknown only over-approximates the explored paths (sound); it is reported, not fatal
		R.FeasUnknown += in.unknownBranch
	}
	if in.opts.Verbose {
		fmt.Fprintf(os.Stderr, "  path %v -> %s (%d steps)\n", in.decisions, outcome, in.steps)
	}
}

// sorted helper
func sortedStr(m map[string]int) []string {
	var ks []string
	for k := range m {
		ks = append(ks, k)
	}
	sort.Strings(ks)
	return ks
}

// deadAsserts: assertion labels written in harness functions that were entered on some path, but whose
// obligation was never evaluated on any path (a vacuity guard in addition to the reach witnesses).
// `assert(label, false)` sites are "must not be reached" markers and are not counted.
func (R *HarnessResult) deadAsserts(fset *token.FileSet) []string {
	// owned functions: the harness entry, the drivers it calls directly (harness files only), and their closures
	owned := map[*ssa.Function]bool{}
	var entry *ssa.Function
	for f := range R.seenFns {
		if f.Name() == R.Spec.Name && f.Parent() == nil {
			entry = f
		}
	}
	if entry == nil {
		return nil
	}
	inHarnessFile := func(f *ssa.Function) bool {
		return f.Pos().IsValid() && strings.HasPrefix(filepath.Base(fset.Position(f.Pos()).Filename), "zz_verif_")
	}
	owned[entry] = true
	entryAsserts := 0
	for _, b := range entry.Blocks {
		for _, ins := range b.Instrs {
			if c, ok := ins.(ssa.CallInstruction); ok {
				if cal := c.Common().StaticCallee(); cal != nil && cal.Name() == "assert" {
					entryAsserts++
				}
			}
		}
	}
	for _, b := range entry.Blocks {
		for _, ins := range b.Instrs {
			if c, ok := ins.(ssa.CallInstruction); ok {
				cal := c.Common().StaticCallee()
				if cal == nil || !inHarnessFile(cal) || strings.Contains(fset.Position(cal.Pos()).Filename, "zz_verif_tmpl_") {
					continue
				}
				if strings.HasPrefix(cal.Name(), "verifC") || entryAsserts == 0 && len(entry.Blocks) == 1 {
					owned[cal] = true // the driver a thin entry delegates to
				}
			}
		}
	}
	static := map[string]bool{}
	for f := range R.seenFns {
		top := f
		for top.Parent() != nil {
			top = top.Parent()
		}
		if !owned[top] {
			continue
		}
		for _, b := range f.Blocks {
			for _, ins := range b.Instrs {
				c, ok := ins.(ssa.CallInstruction)
				if !ok {
					continue
				}
				cal := c.Common().StaticCallee()
				if cal == nil || cal.Name() != "assert" || len(c.Common().Args) != 2 {
					continue
				}
				lab, ok := c.Common().Args[0].(*ssa.Const)
				if !ok || lab.Value == nil {
					continue
				}
				if cond, isC := c.Common().Args[1].(*ssa.Const); isC && cond.Value != nil && !constant.BoolVal(cond.Value) {
					continue
				}
				static[constant.StringVal(lab.Value)] = true
			}
		}
	}
	var dead []string
	for l := range static {
		if _, ok := R.Asserts[l]; ok {
			continue
		}
		hit := false
		for _, v := range R.Violations {
			if v.Label == l {
				hit = true
			}
		}
		if !hit {
			dead = append(dead, l)
		}
	}
	sort.Strings(dead)
	return dead
}
