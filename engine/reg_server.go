package main

var serverStubs = map[string]string{
	"(net/http.Header).Get":                              "verifStubHeaderGet",
	"(net/http.Header).Set":                              "verifStubHeaderSet",
	"net/http.Error":                                     "verifStubHTTPError",
	"(*net/http.Request).Context":                        "verifStubReqContext",
	"net/netip.ParseAddrPort":                            "verifStubParseAddrPort",
	"(net/netip.AddrPort).Addr":                          "verifStubAddrOf",
	"(net/netip.Addr).IsLoopback":                        "verifStubAddrIsLoopback",
	"(net/netip.Addr).IsPrivate":                         "verifStubAddrIsPrivate",
	"net/netip.ParseAddr":                                "verifStubParseAddr",
	"net/netip.AddrPortFrom":                             "verifStubAddrPortFrom",
	"(net/netip.AddrPort).Port":                          "verifStubAddrPortPort",
	"(net/netip.AddrPort).String":                        "verifStubAddrPortString",
	"(net/netip.Addr).String":                            "verifStubAddrString",
	"tailscale.com/tailcfg.UnmarshalCapJSON":             "verifStubUnmarshalCap",
	"(*github.com/tailscale/setec/db.DB).List":           "verifDBList",
	"(*github.com/tailscale/setec/db.DB).Info":           "verifDBInfoM",
	"(*github.com/tailscale/setec/db.DB).Get":            "verifDBGet",
	"(*github.com/tailscale/setec/db.DB).GetConditional": "verifDBGetConditional",
	"(*github.com/tailscale/setec/db.DB).GetVersion":     "verifDBGetVersion",
	"(*github.com/tailscale/setec/db.DB).Put":            "verifDBPut",
	"(*github.com/tailscale/setec/db.DB).Activate":       "verifDBActivate",
	"(*github.com/tailscale/setec/db.DB).DeleteVersion":  "verifDBDeleteVersion",
	"(*github.com/tailscale/setec/db.DB).Delete":         "verifDBDelete",
	"(*github.com/tailscale/setec/db.DB).WriteGen":       "verifStubWriteGen",
	"(*github.com/tailscale/setec/db.DB).Path":           "verifStubDBPath",
	"os.ReadFile":     "verifStubReadFileBackup",
	"bytes.NewReader": "verifStubBytesNewReader",
	"(*github.com/aws/aws-sdk-go-v2/service/s3.Client).PutObject": "verifStubPutObject",
	"github.com/tailscale/setec/server.backupKey":                 "verifStubBackupKey",
	"context.WithTimeout":                                         "verifStubWithTimeout",
	"context.WithoutCancel":                                       "verifStubWithoutCancel",
	"time.After":                                                  "verifStubTimeAfter",
	"time.NewTicker":                                              "verifStubNewTicker",
	"(*time.Ticker).Stop":                                         "verifStubTickerStop",
	"context.TODO":                                                "engine:nilctx",
}

func init() {
	c08 := &Property{ID: "C08", Pkgs: []string{"server"}, Bounds: map[string]string{"request": "method, both gate headers, source address: arbitrary strings; body: proper document / wrong-typed document / arbitrary bytes",
		"identity": "WhoIs error or answer with 0-2 tags, any login, grants under either capability name (0-1 rule each) or unparsable", "database outcome": "nil, access denied (plain and inside a multi-error), not found (wrapped), not changed, other"}}
	for _, n := range []string{"List", "Get", "Info", "Put", "Activate", "Delete", "DeleteVersion"} {
		c08.Harnesses = append(c08.Harnesses, &HarnessSpec{Name: "verifHarnessC08" + n, Pkg: "server", Stubs: serverStubs, Params: map[string]int{},
			ExpectReach: []string{"end-rejected", "end-served"}, NoNative: "net/http, WhoIs and the database are models in this harness (decision table of serveJSON/getIdentity)",
			Desc: "registered handler " + n + ": gates, identification, decoding, dispatch, outcome->status table, no secret bytes in non-200 replies"})
	}
	propRegistry = append(propRegistry, c08)
	c17 := &Property{ID: "C17", Pkgs: []string{"server"}, Bounds: map[string]string{"loop iterations": "up to 3 (quick) / 4 (thorough) waits, unwinding assertion", "events": "a write may happen before every generation read, every file read and upload may fail, cancellation may arrive at every wait"}}
	c17.Harnesses = append(c17.Harnesses, &HarnessSpec{Name: "verifHarnessC17Backup", Pkg: "server", Stubs: serverStubs, Params: map[string]int{"rounds": 2}, ThoroughParams: map[string]int{"rounds": 3},
		UnwindFn: map[string]int{"(*github.com/tailscale/setec/server.Server).periodicBackup": 12}, ExpectReach: []string{"end"},
		NoNative: "virtual time and an S3 model", Desc: "periodicBackup/doBackup over a ghost clock: whole-file uploads, change-driven, at most one per minute, blocking wait between generation reads, terminates on cancellation"})
	propRegistry = append(propRegistry, c17)
}
