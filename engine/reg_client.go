package main

var clientStubs = map[string]string{
	"(*golang.org/x/sync/singleflight.Group).Do":     "verifStubSFDo",
	"(*golang.org/x/sync/singleflight.Group).DoChan": "verifStubSFDoChan",
	"context.WithTimeout":                            "verifStubWithTimeout",
	"context.WithCancel":                             "verifStubWithCancel",
	"context.Background":                             "verifBackground",
	"time.After":                                     "verifStubTimeAfter",
}

func init() {
	c11 := &Property{ID: "C11", Pkgs: []string{"client/setec"}, Bounds: map[string]string{"names in the store": "2 / 3", "per-request faults": "every request may fail (nondet)"}}
	c11.Harnesses = append(c11.Harnesses, &HarnessSpec{Name: "verifHarnessC11Refresh", Pkg: "client/setec", Stubs: clientStubs,
		Params: map[string]int{"names": 2}, ThoroughParams: map[string]int{"names": 3}, ExpectReach: []string{"end-failed", "end-ok"},
		Desc: "one Refresh (poll + applyUpdates + cache flush) from an arbitrary store state against an arbitrary service state"})
	propRegistry = append(propRegistry, c11)
	c19 := &Property{ID: "C19", Pkgs: []string{"client/setec"}, Bounds: map[string]string{"names in the store": "2 / 3", "time": "any instants within +-2^40 s, ages any int64 ns"}}
	c19.Harnesses = append(c19.Harnesses,
		&HarnessSpec{Name: "verifHarnessC11Refresh", Pkg: "client/setec", Stubs: clientStubs, Params: map[string]int{"names": 2}, ThoroughParams: map[string]int{"names": 3},
			ExpectReach: []string{"end-ok"}, Desc: "expiry only drops stale, unreferenced, undeclared secrets at a poll"},
		&HarnessSpec{Name: "verifHarnessC19HasExpired", Pkg: "client/setec", Stubs: clientStubs, Params: map[string]int{}, ExpectReach: []string{"end"},
			Desc: "hasExpired == (undeclared and age configured and now - lastAccess > age) over all stamps"},
		&HarnessSpec{Name: "verifHarnessC19HandleStamps", Pkg: "client/setec", Stubs: clientStubs, Params: map[string]int{"names": 2}, ThoroughParams: map[string]int{"names": 3},
			ExpectReach: []string{"end-known"}, Desc: "a handle read stamps LastAccess, returns its own installed bytes, sends no request"})
	propRegistry = append(propRegistry, c19)
}
