package main

var clientStubs = map[string]string{
	"(*golang.org/x/sync/singleflight.Group).Do":     "verifStubSFDo",
	"(*golang.org/x/sync/singleflight.Group).DoChan": "verifStubSFDoChan",
	"(*golang.org/x/sync/singleflight.Group).Forget": "verifStubSFForget",
	"golang.org/x/sync/errgroup.WithContext":         "verifStubEGWithContext",
	"(*golang.org/x/sync/errgroup.Group).Go":         "verifStubEGGo",
	"(*golang.org/x/sync/errgroup.Group).Wait":       "verifStubEGWait",
	"context.WithTimeout":                            "verifStubWithTimeout",
	"context.WithCancel":                             "verifStubWithCancel",
	"context.Background":                             "verifBackground",
	"time.After":                                     "verifStubTimeAfter",
}

func init() {
	c11 := &Property{ID: "C11", Pkgs: []string{"client/setec"}, Bounds: map[string]string{"names in the store": "2 / 3", "per-request faults": "every request may fail (nondet)"}}
	c11.Harnesses = append(c11.Harnesses, &HarnessSpec{ReplayRepeat: 40, Name: "verifHarnessC11Refresh", Pkg: "client/setec", Stubs: clientStubs,
		ModelOnlyLabels: map[string]string{"flight-in-progress-never-forgotten": sfNote},
		Params:          map[string]int{"names": 2}, ThoroughParams: map[string]int{"names": 3}, ExpectReach: []string{"end-failed", "end-ok", "end-joined-gave-up"},
		Desc: "one Refresh (poll + applyUpdates + cache flush) from an arbitrary store state against an arbitrary service state"})
	c11.Harnesses = append(c11.Harnesses, &HarnessSpec{Name: "verifHarnessC11Jitter", Pkg: "client/setec", Stubs: clientStubs, Params: map[string]int{}, ExpectReach: []string{"end"}, Solver: "cvc5-int",
		ModelOnlyLabels: map[string]string{"within-ten-percent": "the counterexample fixes the result of math/rand.Intn, which the native run cannot control"},
		Desc:            "run(): ticker period = interval + jitter with |jitter| <= interval/10 for every positive 64-bit interval and every result of the random draw (bit-vector arithmetic incl. signed division by 10)"})
	c11.Harnesses = append(c11.Harnesses, &HarnessSpec{Name: "verifHarnessC11RunLoop", Pkg: "client/setec", Stubs: clientStubs, Params: map[string]int{"ticks": 2}, ThoroughParams: map[string]int{"ticks": 4},
		ExpectReach: []string{"end"}, NoNative: "the ticker and the poller's context are environment channels on a ghost schedule",
		Desc: "Store.run: exactly one poll per tick, tick acknowledged, poll errors do not stop the loop, cancellation ends it with a cache flush"})
	c11.Harnesses = append(c11.Harnesses, ch("verifHarnessC11PollAfterFailedFlush", map[string]int{"names": 2}, map[string]int{"names": 3}, []string{"end", "end-repaired"},
		"two polls: the first installs new versions while the cache cannot be written, the second finds nothing new with a working cache: afterwards the cache holds what the store yields"))
	c11.Bounds["poll interval"] = "every positive 64-bit interval (the earlier bound 5 ns <= interval < 2^62 ns hid a genuine defect, now repaired)"
	propRegistry = append(propRegistry, c11)
	c19 := &Property{ID: "C19", Pkgs: []string{"client/setec"}, Bounds: map[string]string{"names in the store": "2 / 3", "time": "any instants within +-2^40 s, ages any int64 ns"}}
	c19.Harnesses = append(c19.Harnesses,
		&HarnessSpec{Name: "verifHarnessC11Refresh", Pkg: "client/setec", Stubs: clientStubs, Params: map[string]int{"names": 2}, ThoroughParams: map[string]int{"names": 3},
			ModelOnlyLabels: map[string]string{"flight-in-progress-never-forgotten": sfNote},
			ExpectReach:     []string{"end-ok", "end-failed"}, Desc: "expiry only drops stale, unreferenced, undeclared secrets at a poll, whatever the service answers (values, failures, not-found)"},
		ch("verifHarnessC12ApplyUpdates", map[string]int{"names": 2}, map[string]int{"names": 3}, []string{"end"}, "applyUpdates with an arbitrary update set (also one computed before a handle was handed out): a name with a handle or watcher is never dropped"),
		&HarnessSpec{Name: "verifHarnessC19HasExpired", Pkg: "client/setec", Stubs: clientStubs, Params: map[string]int{}, ExpectReach: []string{"end", "end-expired"},
			Desc: "hasExpired implies (undeclared and age configured and now - lastAccess > age) over all stamps; expiry does happen"},
		&HarnessSpec{Name: "verifHarnessC19SubSecond", Pkg: "client/setec", Stubs: clientStubs, Params: map[string]int{}, ExpectReach: []string{"end"},
			Desc: "hasExpired with a nanosecond clock and whole-second stamps: expiry implies that the real time since the read (any instant of the stamped second) exceeds the age"},
		&HarnessSpec{Name: "verifHarnessC19HandleStamps", Pkg: "client/setec", Stubs: clientStubs, Params: map[string]int{"names": 2}, ThoroughParams: map[string]int{"names": 3},
			ExpectReach: []string{"end-known"}, Desc: "a handle read stamps LastAccess, returns its own installed bytes, sends no request"})
	propRegistry = append(propRegistry, c19)
}

var clientFSStubs = map[string]string{
	"os.ReadFile":      "verifStubReadFile",
	"os.WriteFile":     "verifStubOSWriteFile",
	"os.OpenFile":      "verifStubOpenFile",
	"os.Open":          "verifStubOpen",
	"os.Stat":          "verifStubStat",
	"os.CreateTemp":    "verifStubCreateTemp",
	"os.Remove":        "verifStubRemove",
	"os.MkdirAll":      "verifStubMkdirAll",
	"os.Lstat":         "verifStubLstat",
	"os.Rename":        "verifStubRename",
	"os.Link":          "verifStubLink",
	"(*os.File).Name":  "verifStubFileName",
	"(*os.File).Write": "verifStubFileWrite",
	"(*os.File).Chmod": "verifStubFileChmod",
	"(*os.File).Sync":  "verifStubFileSync",
	"(*os.File).Close": "verifStubFileClose",
}

func clientAll() map[string]string {
	m := map[string]string{}
	for k, v := range clientStubs {
		m[k] = v
	}
	for k, v := range clientFSStubs {
		m[k] = v
	}
	return m
}

var lockNote = "lock-set (ghost) state has no native counterpart"

var jsonPartialNote = "the counterexample uses the JSON model's 'error with a partially filled target' outcome, which the native harness (arbitrary bytes) does not construct"

func ch(name string, params, thorough map[string]int, reach []string, desc string) *HarnessSpec {
	return &HarnessSpec{ReplayRepeat: 40, Name: name, Pkg: "client/setec", Stubs: clientAll(), Params: params, ThoroughParams: thorough, ExpectReach: reach, Desc: desc,
		ModelOnlyLabels: map[string]string{"undecodable-cache-ignored-as-a-whole": jsonPartialNote, "undecodable-cache-contributes-no-names": jsonPartialNote,
			"no-request-under-lock": lockNote, "lock-released": lockNote, "lockset": lockNote, "rebuild-is-atomic-under-updater-lock": lockNote,
			"flight-in-progress-never-forgotten": sfNote, "concurrent-registration-not-lost": sfNote,
			"first-callers-handle-follows-the-install": sfNote, "second-callers-handle-follows-the-install": sfNote, "a-later-handle-follows-the-install": sfNote,
			"updater-built-from-the-bytes-the-store-holds-now": sfNote, "handle-and-updater-agree": sfNote,
			"data-race": raceNote, "every-failed-field-is-reported": egNote, "only-fields-whose-own-lookup-failed-stay-unfilled": egNote}}
}

const egNote = "the order in which the tasks of an errgroup run is fixed by the model (order of the Go calls); the native run schedules them freely"

const sfNote = "the second caller (another goroutine's flight or registration at a chosen point of the schedule) exists only in the singleflight model; the native run has one goroutine"

func init() {
	fsNote := "file-system faults and kills are a model; realising them natively needs ptrace fault injection"
	c10 := &Property{ID: "C10", Pkgs: []string{"client/setec"}, Bounds: map[string]string{"declared names": "2 / 3 (duplicates, empty allowed)", "service failures": "at most 2 / 4 failing requests per construction", "cache": "none, unreadable, empty, any document over the names (valid or not), arbitrary bytes"}}
	c10.Harnesses = append(c10.Harnesses,
		ch("verifHarnessC10NewStoreNoCache", map[string]int{"names": 2, "fails": 2, "entrykinds": 2}, map[string]int{"names": 3, "fails": 3, "entrykinds": 3}, []string{"end-error", "end-ok"}, "NewStore without cache: declared names (duplicates, empty), failing/recovering service, ending context, back-off"),
		ch("verifHarnessC10NewStoreDoc", map[string]int{"names": 2, "fails": 1, "entrykinds": 2}, map[string]int{"names": 2, "fails": 2, "entrykinds": 3}, []string{"end-error", "end-ok", "end-from-cache"}, "NewStore with a cache document (valid or not, partial or complete)"),
		ch("verifHarnessC10NewStoreBadCache", map[string]int{"fails": 1, "entrykinds": 2}, map[string]int{"fails": 2, "entrykinds": 3}, []string{"end-error", "end-ok"}, "NewStore with an unreadable, empty or arbitrary-bytes cache"),
		chs("verifHarnessC10NewStoreStructs", map[string]int{}, nil, []string{"end-ok", "end-empty"}, "declared names from Secrets and from struct tags with duplicates across and within both, with and without a cache entry"),
		chNoNative(ch("verifHarnessC10Backoff", map[string]int{}, nil, []string{"end"}, "14 failing rounds: pauses 1,2,4,...,4096,4096 ms; error once the context ends"), "the pauses are observed through the time.After stub (natively real timers would sleep ~30 s unobserved)"),
		ch("verifHarnessC10Misconfig", map[string]int{}, nil, []string{"end"}, "misconfiguration is an error without any request"),
		ch("verifHarnessC10FileClient", map[string]int{}, nil, []string{"end-present", "end-absent"}, "file-backed client: a missing declared secret fails at once, no waiting"))
	propRegistry = append(propRegistry, c10)

	c13 := &Property{ID: "C13", Pkgs: []string{"client/setec"}, Bounds: map[string]string{"names": "2 / 3", "fault positions": "every FS call of the cache write: error and kill-before"}}
	h1 := ch("verifHarnessC13FileCacheWrite", map[string]int{}, nil, []string{"end-crash", "end-error", "end-ok"}, "FileCache.Write: real atomicfile over the FS model, owner-only, old or new document under faults and kills")
	h1.NoNative = fsNote
	h2 := ch("verifHarnessC13FileClientReadsCache", map[string]int{"names": 2}, map[string]int{"names": 3}, []string{"end-present", "end-absent"}, "a cache document is accepted by NewFileClient with identical results for every non-empty secret")
	h2.NoNative = fsNote
	c13.Harnesses = append(c13.Harnesses, h1, h2,
		chNoNative(ch("verifHarnessC13NewFileCache", map[string]int{}, nil, []string{"end", "end-refused"}, "NewFileCache: directory 0700, non-regular path refused"), fsNote),
		ch("verifHarnessC13FlushAfterFailedWrite", map[string]int{"names": 2}, map[string]int{"names": 3}, []string{"end"}, "two steps: an install whose cache write fails, then the shutdown flush with a working cache must write the whole set"),
		ch("verifHarnessC13ShutdownFlush", map[string]int{"names": 2}, map[string]int{"names": 3}, []string{"end"}, "the poller flushes the whole active set on shutdown"),
		ch("verifHarnessC10NewStoreDoc", map[string]int{"names": 2, "fails": 1, "entrykinds": 2}, map[string]int{"names": 2, "fails": 2, "entrykinds": 3}, []string{"end-ok", "end-from-cache"}, "flush after initial fetch; restart from any cache document without contacting the service"),
		ch("verifHarnessC10NewStoreBadCache", map[string]int{"fails": 1, "entrykinds": 2}, map[string]int{"fails": 2, "entrykinds": 3}, []string{"end-ok"}, "unreadable, empty or arbitrary cache contents are never fatal"),
		ch("verifHarnessC11Refresh", map[string]int{"names": 2}, map[string]int{"names": 3}, []string{"end-ok"}, "flush after a poll that changed something holds the post-state"),
		ch("verifHarnessC16Lookup", map[string]int{"names": 2}, map[string]int{"names": 3}, []string{"end-installed"}, "flush after a lookup install"),
		ch("verifHarnessC13ConcurrentLookups", map[string]int{"names": 1}, map[string]int{"names": 2}, []string{"end"}, "two overlapping lookups of different names: the cache ends up holding every known secret whatever the order of their cache writes"))
	propRegistry = append(propRegistry, c13)

	c12 := &Property{ID: "C12", Pkgs: []string{"client/setec"}, Bounds: map[string]string{"names": "2 / 3"}}
	c12.Harnesses = append(c12.Harnesses,
		ch("verifHarnessC12ApplyUpdates", map[string]int{"names": 2}, map[string]int{"names": 3}, []string{"end", "end-watched-updated"}, "applyUpdates with an arbitrary update set: invariant J, lock set, handles keep their names, values replaced never mutated"),
		ch("verifHarnessC19HandleStamps", map[string]int{"names": 2}, map[string]int{"names": 3}, []string{"end-known"}, "a handle call returns its own installed bytes, sends no request, releases the lock"),
		ch("verifHarnessC12HandleSeesInstall", map[string]int{"names": 2}, map[string]int{"names": 3}, []string{"end"}, "a handle obtained earlier returns each newly installed value, in install order, without any request"),
		ch("verifHarnessC12RacingLookups", map[string]int{"names": 1}, map[string]int{"names": 2}, []string{"end"}, "two racing lookups of the same unknown name (two fetches): every handle for the name follows later installs"),
		ch("verifHarnessC13ConcurrentLookups", map[string]int{"names": 1}, map[string]int{"names": 2}, []string{"end"}, "two overlapping lookups of different names: both installed, lock released, cache complete"),
		ch("verifHarnessC12Close", map[string]int{"names": 2}, map[string]int{"names": 3}, []string{"end"}, "Close cancels the poller and returns; handles keep serving afterwards"),
		ch("verifHarnessC13ShutdownFlush", map[string]int{"names": 2}, map[string]int{"names": 3}, []string{"end"}, "the poller releases the store's lock on every exit path, also when the shutdown flush fails: handles keep serving without blocking"),
		ch("verifHarnessC16Lookup", map[string]int{"names": 2}, map[string]int{"names": 3}, []string{"end-installed", "end-failed", "end-known", "end-disabled"}, "lookup under lock-set obligations: no request under the lock"),
		ch("verifHarnessC11Refresh", map[string]int{"names": 2}, map[string]int{"names": 3}, []string{"end-ok"}, "poll keeps invariant J"))
	propRegistry = append(propRegistry, c12)

	c15 := &Property{ID: "C15", Pkgs: []string{"client/setec"}, Bounds: map[string]string{"events": "histories of 4 / 5 events (install | Get) after creation, builder may fail at every call"}}
	c15.Harnesses = append(c15.Harnesses,
		ch("verifHarnessC15Updater", map[string]int{"steps": 4}, map[string]int{"steps": 5}, []string{"end", "end-create-failed"}, "NewUpdater + bounded histories of installs and Gets with failing builders and closers"),
		ch("verifHarnessC15TwoUpdaters", map[string]int{"steps": 4}, map[string]int{"steps": 5}, []string{"end"}, "two updaters on one secret: every install reaches both, each rebuilds only when owed"),
		ch("verifHarnessC15Notify", map[string]int{}, nil, []string{"end"}, "notify is non-blocking and a level trigger"),
		ch("verifHarnessC15RacingLookupUpdater", map[string]int{"names": 1}, map[string]int{"names": 2}, []string{"end"}, "an updater created by one caller while another caller's lookup of the same name is about to fetch (the secret may be rotated in between): the updater is not left behind by the second lookup"),
		ch("verifHarnessC12ApplyUpdates", map[string]int{"names": 2}, map[string]int{"names": 3}, []string{"end", "end-watched-updated"}, "an install with an arbitrary update set and a possibly failing cache write notifies the watcher of every updated name"),
		ch("verifHarnessC16LookupWatcher", map[string]int{"names": 2}, map[string]int{"names": 3}, []string{"end-ok", "end-raced"}, "watcher registration for known and looked-up names, also when another updater registers concurrently"))
	propRegistry = append(propRegistry, c15)

	c16 := &Property{ID: "C16", Pkgs: []string{"client/setec"}, Bounds: map[string]string{"names": "2 / 3", "time": "ghost clock in ns, any start < 2^50, any deadline", "callers": "this caller plus at most one earlier leader whose own context may be cancelled"}}
	hb := ch("verifHarnessC16Bounded", map[string]int{}, nil, []string{"end"}, "hanging service: leader bounded by the 5-minute fallback, caller deadline honoured, follower of a cancelled leader retries once and is bounded")
	hb.NoNative = "virtual time (a hanging service and 5-minute timers) has no native counterpart without synctest"
	hb.UnwindFn = map[string]int{"(*github.com/tailscale/setec/client/setec.Store).lookupSecretInternal": 4}
	c16.Harnesses = append(c16.Harnesses,
		ch("verifHarnessC16Lookup", map[string]int{"names": 2}, map[string]int{"names": 3}, []string{"end-installed", "end-failed", "end-known", "end-disabled"}, "LookupSecret: gate, single flight per name, install exactly the served value, no retry"),
		ch("verifHarnessC16LookupWatcher", map[string]int{"names": 2}, map[string]int{"names": 3}, []string{"end-ok", "end-failed", "end-disabled", "end-raced"}, "NewUpdater/lookupWatcher for known and unknown names: lock balanced around the lookup, watcher registered (also when another updater registers inside the lookup window), disabled lookup is an error without a request"),
		ch("verifHarnessC16SecretGate", map[string]int{"names": 2}, map[string]int{"names": 3}, []string{"end"}, "Secret panics iff unknown and lookups disabled; never a request"),
		hb)
	propRegistry = append(propRegistry, c16)

	c20 := &Property{ID: "C20", Pkgs: []string{"client/setec"}, Bounds: map[string]string{"fields": "one each of []byte, string, Secret, custom unmarshaler; values arbitrary; each lookup may fail"}}
	c20.Harnesses = append(c20.Harnesses, ch("verifHarnessC20Parse", map[string]int{}, nil, []string{"end"}, "ParseFields + Apply on a fixed family of struct shapes (supported types, binary unmarshalers by value and by pointer, embedded struct, untagged fields; rejected: unsupported type, empty name with and without verb, no tags, non-pointer, non-struct), values symbolic; reflect is a go/types-backed model"))
	c20.Harnesses = append(c20.Harnesses, ch("verifHarnessC20JSONField", map[string]int{}, nil, []string{"end"}, "a json-tagged field: accepted only if the whole secret is exactly one JSON document (syntactic class of the bytes is an uninterpreted function shared by Unmarshal and Decoder.Decode)"))
	c20.Harnesses = append(c20.Harnesses, ch("verifHarnessC20Apply", map[string]int{}, nil, []string{"end"}, "Fields.Apply/Secrets on the field list ParseFields builds for one struct with a field of each supported kind: per-type assignment, private copy, naming, error isolation"))
	c20.Harnesses = append(c20.Harnesses, ch("verifHarnessC20Reapply", map[string]int{}, nil, []string{"end"}, "one parsed field list applied twice: to the same store after a newer version of every secret was installed, or to a second store with its own values and its own known/unknown split; every field then holds the current value of the store given to that Apply"))
	propRegistry = append(propRegistry, c20)
}

func chs(name string, params, thorough map[string]int, reach []string, desc string) *HarnessSpec {
	h := ch(name, params, thorough, reach, desc)
	h.Stubs["github.com/tailscale/setec/client/setec.ParseFields"] = "verifStubParseFields"
	return h
}

func chNoNative(h *HarnessSpec, why string) *HarnessSpec {
	h.NoNative = why
	return h
}
