package main

import (
	"go/types"

	"golang.org/x/tools/go/ssa"
)

// Minimal model of package reflect: exactly the operations the repository
// uses on hand-built fieldInfo values (DESIGN §4.5): TypeOf, Type.Elem,
// ValueOf, Value.Elem, Value.Set, Value.Interface, Value.Type.

// RValue models reflect.Value: either an addressable cell (Ptr) or a plain value.
type RValue struct {
	T   types.Type
	V   Value  // the value (for pointers: the *Value)
	Ptr *Value // non-nil: addressable location holding the value
}

func init() {
	intrinsics["reflect.TypeOf"] = func(in *Interp, fn *ssa.Function, a []Value) Value {
		it := a[0].(Iface)
		if it.T == nil {
			return Iface{}
		}
		return in.rtypeOf(it.T)
	}
	intrinsics["(*reflect.rtype).Elem"] = func(in *Interp, fn *ssa.Function, a []Value) Value {
		t := (*a[0].(*Value)).(*Opaque).Fields["t"].(typeBox).t
		switch u := t.Underlying().(type) {
		case *types.Pointer:
			return in.rtypeOf(u.Elem())
		case *types.Slice:
			return in.rtypeOf(u.Elem())
		case *types.Array:
			return in.rtypeOf(u.Elem())
		case *types.Map:
			return in.rtypeOf(u.Elem())
		}
		panic(goPanic{msg: "reflect: Elem of invalid type " + t.String()})
	}
	intrinsics["(*reflect.rtype).String"] = func(in *Interp, fn *ssa.Function, a []Value) Value {
		return mkStr((*a[0].(*Value)).(*Opaque).Fields["t"].(typeBox).t.String())
	}
	intrinsics["reflect.ValueOf"] = func(in *Interp, fn *ssa.Function, a []Value) Value {
		it := a[0].(Iface)
		return RValue{T: it.T, V: it.V}
	}
	intrinsics["(reflect.Value).Elem"] = func(in *Interp, fn *ssa.Function, a []Value) Value {
		rv := a[0].(RValue)
		pt, ok := rv.T.Underlying().(*types.Pointer)
		if !ok {
			panic(goPanic{msg: "reflect: call of reflect.Value.Elem on non-pointer Value"})
		}
		p := rv.V.(*Value)
		if p == nil {
			return RValue{}
		}
		return RValue{T: pt.Elem(), V: *p, Ptr: p}
	}
	intrinsics["(reflect.Value).Set"] = func(in *Interp, fn *ssa.Function, a []Value) Value {
		dst, src := a[0].(RValue), a[1].(RValue)
		if dst.Ptr == nil {
			panic(goPanic{msg: "reflect: reflect.Value.Set using unaddressable value"})
		}
		if !types.AssignableTo(src.T, dst.T) {
			panic(goPanic{msg: "reflect.Set: value of type " + src.T.String() + " is not assignable to type " + dst.T.String()})
		}
		in.onStore(dst.Ptr)
		v := copyVal(src.V)
		if _, isI := dst.T.Underlying().(*types.Interface); isI {
			v = Iface{T: src.T, V: v}
		}
		*dst.Ptr = v
		return nil
	}
	intrinsics["(reflect.Value).Interface"] = func(in *Interp, fn *ssa.Function, a []Value) Value {
		rv := a[0].(RValue)
		if rv.T == nil {
			panic(goPanic{msg: "reflect: call of reflect.Value.Interface on zero Value"})
		}
		v := rv.V
		if rv.Ptr != nil {
			v = copyVal(*rv.Ptr)
		}
		return Iface{T: rv.T, V: v}
	}
	intrinsics["(reflect.Value).Type"] = func(in *Interp, fn *ssa.Function, a []Value) Value {
		return in.rtypeOf(a[0].(RValue).T)
	}
}

type typeBox struct{ t types.Type }

func (in *Interp) rtypeOf(t types.Type) Value {
	key := types.TypeString(t, nil)
	if in.rtypes == nil {
		in.rtypes = map[string]*Value{}
	}
	p, ok := in.rtypes[key]
	if !ok {
		p = new(Value)
		*p = &Opaque{Kind: "rtype", Fields: map[string]Value{"t": typeBox{t}}, ID: in.newID()}
		in.rtypes[key] = p
	}
	rp := in.L.prog.ImportedPackage("reflect")
	return Iface{T: types.NewPointer(rp.Type("rtype").Type()), V: p}
}
