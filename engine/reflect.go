package main

import (
	"go/types"
	"reflect"

	"golang.org/x/tools/go/ssa"
)

// Minimal model of package reflect: exactly the operations the repository
// uses on hand-built fieldInfo values (DESIGN §4.5): TypeOf, Type.Elem,
// ValueOf, Value.Elem, Value.Set, Value.Interface, Value.Type.

// RValue models reflect.Value: either an addressable cell (Ptr) or a plain value.
type RValue struct {
	T   types.Type
	V   Value  // the value (for pointers: the *Value)
	Ptr *Value // non-nil: addressable location holding the value
	// read-only flags as in package reflect: obtained through an unexported field (sticky: inherited by everything
	// reached from it) or being an unexported embedded field itself (not inherited by its exported fields)
	StickyRO, EmbedRO bool
}

func init() {
	intrinsics["reflect.TypeOf"] = func(in *Interp, fn *ssa.Function, a []Value) Value {
		it := a[0].(Iface)
		if it.T == nil {
			return Iface{}
		}
		return in.rtypeOf(it.T)
	}
	intrinsics["(*reflect.rtype).Elem"] = func(in *Interp, fn *ssa.Function, a []Value) Value {
		t := (*a[0].(*Value)).(*Opaque).Fields["t"].(typeBox).t
		switch u := t.Underlying().(type) {
		case *types.Pointer:
			return in.rtypeOf(u.Elem())
		case *types.Slice:
			return in.rtypeOf(u.Elem())
		case *types.Array:
			return in.rtypeOf(u.Elem())
		case *types.Map:
			return in.rtypeOf(u.Elem())
		}
		panic(goPanic{msg: "reflect: Elem of invalid type " + t.String()})
	}
	intrinsics["(*reflect.rtype).String"] = func(in *Interp, fn *ssa.Function, a []Value) Value {
		return mkStr((*a[0].(*Value)).(*Opaque).Fields["t"].(typeBox).t.String())
	}
	intrinsics["reflect.ValueOf"] = func(in *Interp, fn *ssa.Function, a []Value) Value {
		it := a[0].(Iface)
		return RValue{T: it.T, V: it.V}
	}
	intrinsics["(reflect.Value).Elem"] = func(in *Interp, fn *ssa.Function, a []Value) Value {
		rv := a[0].(RValue)
		pt, ok := rv.T.Underlying().(*types.Pointer)
		if !ok {
			panic(goPanic{msg: "reflect: call of reflect.Value.Elem on non-pointer Value"})
		}
		p := rv.V.(*Value)
		if p == nil {
			return RValue{}
		}
		return RValue{T: pt.Elem(), V: *p, Ptr: p, StickyRO: rv.StickyRO, EmbedRO: rv.EmbedRO}
	}
	intrinsics["(reflect.Value).Set"] = func(in *Interp, fn *ssa.Function, a []Value) Value {
		dst, src := a[0].(RValue), a[1].(RValue)
		if dst.Ptr == nil {
			panic(goPanic{msg: "reflect: reflect.Value.Set using unaddressable value"})
		}
		if dst.StickyRO || dst.EmbedRO {
			panic(goPanic{msg: "reflect: reflect.Value.Set using value obtained using unexported field"})
		}
		if !types.AssignableTo(src.T, dst.T) {
			panic(goPanic{msg: "reflect.Set: value of type " + src.T.String() + " is not assignable to type " + dst.T.String()})
		}
		in.onStore(dst.Ptr)
		v := copyVal(src.V)
		if _, isI := dst.T.Underlying().(*types.Interface); isI {
			v = Iface{T: src.T, V: v}
		}
		*dst.Ptr = v
		return nil
	}
	intrinsics["(reflect.Value).Interface"] = func(in *Interp, fn *ssa.Function, a []Value) Value {
		rv := a[0].(RValue)
		if rv.T == nil {
			panic(goPanic{msg: "reflect: call of reflect.Value.Interface on zero Value"})
		}
		if rv.StickyRO || rv.EmbedRO {
			panic(goPanic{msg: "reflect.Value.Interface: cannot return value obtained from unexported field or method"})
		}
		v := rv.V
		if rv.Ptr != nil {
			v = copyVal(*rv.Ptr)
		}
		return Iface{T: rv.T, V: v}
	}
	intrinsics["(reflect.Value).Type"] = func(in *Interp, fn *ssa.Function, a []Value) Value {
		if a[0].(RValue).T == nil {
			panic(goPanic{msg: "reflect: call of reflect.Value.Type on zero Value"})
		}
		return in.rtypeOf(a[0].(RValue).T)
	}
	intrinsics["(reflect.Value).IsValid"] = func(in *Interp, fn *ssa.Function, a []Value) Value {
		return mkBool(a[0].(RValue).T != nil)
	}
	intrinsics["(reflect.Value).Kind"] = func(in *Interp, fn *ssa.Function, a []Value) Value {
		rv := a[0].(RValue)
		if rv.T == nil {
			return mkBV(64, 0) // reflect.Invalid
		}
		return mkBV(64, uint64(kindOf(rv.T)))
	}
}

type typeBox struct{ t types.Type }

func (in *Interp) rtypeOf(t types.Type) Value {
	key := types.TypeString(t, nil)
	if in.rtypes == nil {
		in.rtypes = map[string]*Value{}
	}
	p, ok := in.rtypes[key]
	if !ok {
		p = new(Value)
		*p = &Opaque{Kind: "rtype", Fields: map[string]Value{"t": typeBox{t}}, ID: in.newID()}
		in.rtypes[key] = p
	}
	rp := in.L.prog.ImportedPackage("reflect")
	return Iface{T: types.NewPointer(rp.Type("rtype").Type()), V: p}
}

// ---------- the further operations used by parseFields / checkUnmarshal ----------

func kindOf(t types.Type) reflect.Kind {
	switch u := t.Underlying().(type) {
	case *types.Basic:
		switch u.Kind() {
		case types.Bool:
			return reflect.Bool
		case types.Int:
			return reflect.Int
		case types.Int8:
			return reflect.Int8
		case types.Int16:
			return reflect.Int16
		case types.Int32:
			return reflect.Int32
		case types.Int64:
			return reflect.Int64
		case types.Uint:
			return reflect.Uint
		case types.Uint8:
			return reflect.Uint8
		case types.Uint16:
			return reflect.Uint16
		case types.Uint32:
			return reflect.Uint32
		case types.Uint64:
			return reflect.Uint64
		case types.Uintptr:
			return reflect.Uintptr
		case types.Float32:
			return reflect.Float32
		case types.Float64:
			return reflect.Float64
		case types.String:
			return reflect.String
		case types.UnsafePointer:
			return reflect.UnsafePointer
		}
	case *types.Pointer:
		return reflect.Pointer
	case *types.Struct:
		return reflect.Struct
	case *types.Slice:
		return reflect.Slice
	case *types.Array:
		return reflect.Array
	case *types.Map:
		return reflect.Map
	case *types.Interface:
		return reflect.Interface
	case *types.Signature:
		return reflect.Func
	case *types.Chan:
		return reflect.Chan
	}
	return reflect.Invalid
}

func rtypeArg(v Value) types.Type {
	switch x := v.(type) {
	case *Value:
		return (*x).(*Opaque).Fields["t"].(typeBox).t
	case Iface:
		return (*x.V.(*Value)).(*Opaque).Fields["t"].(typeBox).t
	}
	panic(abort("reflect model: not a type"))
}

// structFieldRec builds the reflect.StructField value of field i of st (index path idx).
func (in *Interp) structFieldRec(st *types.Struct, i int, idx []int, sfType *types.Struct) Struct {
	f := st.Field(i)
	idxVals := make([]Value, len(idx))
	for k, n := range idx {
		idxVals[k] = mkBV(64, uint64(n))
	}
	pkgPath := ""
	if !f.Exported() && f.Pkg() != nil {
		pkgPath = f.Pkg().Path()
	}
	rec := make(Struct, sfType.NumFields())
	for k := 0; k < sfType.NumFields(); k++ {
		switch sfType.Field(k).Name() {
		case "Name":
			rec[k] = mkStr(f.Name())
		case "PkgPath":
			rec[k] = mkStr(pkgPath)
		case "Type":
			rec[k] = in.rtypeOf(f.Type())
		case "Tag":
			rec[k] = mkStr(st.Tag(i))
		case "Offset":
			rec[k] = mkBV(64, 0)
		case "Index":
			rec[k] = Slice{A: idxVals}
		case "Anonymous":
			rec[k] = mkBool(f.Embedded())
		default:
			rec[k] = in.zero(sfType.Field(k).Type())
		}
	}
	return rec
}

// fieldVisible: Go's selector rules decide which promoted fields reflect.VisibleFields reports: a field is visible iff
// selecting its name on the top-level struct resolves to exactly this field (not hidden by a shallower field of the
// same name, not ambiguous between two embedded structs).
func fieldVisible(top types.Type, f *types.Var, idx []int) bool {
	obj, index, _ := types.LookupFieldOrMethod(top, true, f.Pkg(), f.Name())
	if obj != f || len(index) != len(idx) {
		return false
	}
	for k := range idx {
		if index[k] != idx[k] {
			return false
		}
	}
	return true
}

// visibleFields mirrors reflect.VisibleFields for structs with at most one level of embedding by value.
func (in *Interp) visibleFields(t types.Type, prefix []int, out *[]Value, sfType *types.Struct) {
	if len(prefix) == 0 {
		in.vfTop = t
	}
	st := t.Underlying().(*types.Struct)
	for i := 0; i < st.NumFields(); i++ {
		f := st.Field(i)
		idx := append(append([]int{}, prefix...), i)
		if !fieldVisible(in.vfTop, f, idx) {
			continue // hidden or ambiguous: reflect.VisibleFields leaves it out (and does not descend into it)
		}
		idxVals := make([]Value, len(idx))
		for k, n := range idx {
			idxVals[k] = mkBV(64, uint64(n))
		}
		pkgPath := ""
		if !f.Exported() && f.Pkg() != nil {
			pkgPath = f.Pkg().Path()
		}
		sf := in.zero(types.NewStruct(nil, nil)) // placeholder, replaced below
		_ = sf
		rec := make(Struct, sfType.NumFields())
		for k := 0; k < sfType.NumFields(); k++ {
			switch sfType.Field(k).Name() {
			case "Name":
				rec[k] = mkStr(f.Name())
			case "PkgPath":
				rec[k] = mkStr(pkgPath)
			case "Type":
				rec[k] = in.rtypeOf(f.Type())
			case "Tag":
				rec[k] = mkStr(st.Tag(i))
			case "Offset":
				rec[k] = mkBV(64, 0)
			case "Index":
				rec[k] = Slice{A: idxVals}
			case "Anonymous":
				rec[k] = mkBool(f.Embedded())
			default:
				rec[k] = in.zero(sfType.Field(k).Type())
			}
		}
		*out = append(*out, rec)
		if f.Embedded() {
			et := f.Type()
			if p, ok := et.Underlying().(*types.Pointer); ok {
				et = p.Elem()
			}
			if _, ok := et.Underlying().(*types.Struct); ok {
				if len(prefix) >= 1 {
					panic(abort("reflect model: more than one level of embedding"))
				}
				if _, isPtr := f.Type().Underlying().(*types.Pointer); isPtr {
					panic(abort("reflect model: embedding by pointer"))
				}
				in.visibleFields(et, idx, out, sfType)
			}
		}
	}
}

func init() {
	intrinsics["(*reflect.rtype).Kind"] = func(in *Interp, fn *ssa.Function, a []Value) Value {
		return mkBV(64, uint64(kindOf(rtypeArg(a[0]))))
	}
	intrinsics["(*reflect.rtype).Implements"] = func(in *Interp, fn *ssa.Function, a []Value) Value {
		t := rtypeArg(a[0])
		u := rtypeArg(a[1])
		it, ok := u.Underlying().(*types.Interface)
		if !ok {
			panic(goPanic{msg: "reflect: non-interface type passed to Type.Implements"})
		}
		return mkBool(in.implements(t, it))
	}
	intrinsics["(*reflect.rtype).NumField"] = func(in *Interp, fn *ssa.Function, a []Value) Value {
		st, ok := rtypeArg(a[0]).Underlying().(*types.Struct)
		if !ok {
			panic(goPanic{msg: "reflect: NumField of non-struct type"})
		}
		return mkBV(64, uint64(st.NumFields()))
	}
	intrinsics["(*reflect.rtype).Field"] = func(in *Interp, fn *ssa.Function, a []Value) Value {
		st, ok := rtypeArg(a[0]).Underlying().(*types.Struct)
		if !ok {
			panic(goPanic{msg: "reflect: Field of non-struct type"})
		}
		i := int(a[1].(Term).U)
		if i < 0 || i >= st.NumFields() {
			panic(goPanic{msg: "reflect: Field index out of bounds"})
		}
		sfNamed := in.L.prog.ImportedPackage("reflect").Type("StructField").Type()
		return in.structFieldRec(st, i, []int{i}, sfNamed.Underlying().(*types.Struct))
	}
	intrinsics["reflect.VisibleFields"] = func(in *Interp, fn *ssa.Function, a []Value) Value {
		t := rtypeArg(a[0])
		if _, ok := t.Underlying().(*types.Struct); !ok {
			panic(goPanic{msg: "reflect.VisibleFields of non-struct type"})
		}
		sfNamed := in.L.prog.ImportedPackage("reflect").Type("StructField").Type()
		var out []Value
		in.visibleFields(t, nil, &out, sfNamed.Underlying().(*types.Struct))
		return Slice{A: out}
	}
	// StructField.IsExported: PkgPath is empty exactly for exported fields
	intrinsics["(reflect.StructField).IsExported"] = func(in *Interp, fn *ssa.Function, a []Value) Value {
		sf := a[0].(Struct)
		st := in.L.prog.ImportedPackage("reflect").Type("StructField").Type().Underlying().(*types.Struct)
		for k := 0; k < st.NumFields(); k++ {
			if st.Field(k).Name() == "PkgPath" {
				return tEq(sf[k].(Term), mkStr(""))
			}
		}
		panic(abort("reflect model: StructField without PkgPath"))
	}
	intrinsics["(reflect.StructTag).Lookup"] = func(in *Interp, fn *ssa.Function, a []Value) Value {
		v, ok := reflect.StructTag(concStr(a[0])).Lookup(concStr(a[1]))
		return Tuple{mkStr(v), mkBool(ok)}
	}
	intrinsics["(reflect.StructTag).Get"] = func(in *Interp, fn *ssa.Function, a []Value) Value {
		return mkStr(reflect.StructTag(concStr(a[0])).Get(concStr(a[1])))
	}
	intrinsics["(reflect.Value).FieldByIndex"] = func(in *Interp, fn *ssa.Function, a []Value) Value {
		rv := a[0].(RValue)
		if rv.T == nil {
			panic(goPanic{msg: "reflect: call of reflect.Value.FieldByIndex on zero Value"})
		}
		for _, iv := range a[1].(Slice).A {
			i := int(iv.(Term).U)
			st, ok := rv.T.Underlying().(*types.Struct)
			if !ok || rv.Ptr == nil {
				panic(abort("reflect model: FieldByIndex on a non-addressable or non-struct value"))
			}
			cell := (*rv.Ptr).(Struct)
			f := st.Field(i)
			rv = RValue{T: f.Type(), V: cell[i], Ptr: &cell[i], StickyRO: rv.StickyRO || (!f.Exported() && !f.Embedded()), EmbedRO: !f.Exported() && f.Embedded()}
		}
		return rv
	}
	intrinsics["(reflect.Value).Addr"] = func(in *Interp, fn *ssa.Function, a []Value) Value {
		rv := a[0].(RValue)
		if rv.Ptr == nil {
			panic(goPanic{msg: "reflect.Value.Addr of unaddressable value"})
		}
		return RValue{T: types.NewPointer(rv.T), V: rv.Ptr, StickyRO: rv.StickyRO, EmbedRO: rv.EmbedRO}
	}
	intrinsics["(reflect.Value).IsNil"] = func(in *Interp, fn *ssa.Function, a []Value) Value {
		rv := a[0].(RValue)
		if rv.T == nil {
			panic(goPanic{msg: "reflect: call of reflect.Value.IsNil on zero Value"})
		}
		v := rv.V
		if rv.Ptr != nil {
			v = *rv.Ptr
		}
		return mkBool(isNilValue(v))
	}
	intrinsics["reflect.New"] = func(in *Interp, fn *ssa.Function, a []Value) Value {
		t := rtypeArg(a[0])
		p := new(Value)
		*p = in.zero(t)
		return RValue{T: types.NewPointer(t), V: p}
	}
}
