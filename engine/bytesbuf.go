package main

import (
	"go/types"

	"golang.org/x/tools/go/ssa"
)

// bytes.Buffer over opaque byte sequences (blobs, symbolic texts).
//
// The real bytes.Buffer code is interpreted as long as everything it holds is a concrete-structure slice. As soon as an
// opaque sequence (Slice.Seq) is written, the buffer is modelled here: its storage is ONE SeqObj whose identity stands
// for the backing array, so that a slice obtained from Bytes() before a Reset()+Write() observes the overwritten
// content, as an alias of the real backing array does when the new content fits.

type useReal struct{}

type bufState struct {
	st    *SeqObj // storage; nil while the buffer is handled by the real code
	empty bool    // logically empty (after Reset/Truncate(0)) although the storage is kept
}

func (in *Interp) bufOf(p *Value) *bufState {
	if in.bufs == nil {
		in.bufs = map[*Value]*bufState{}
	}
	b := in.bufs[p]
	if b == nil {
		b = &bufState{}
		in.bufs[p] = b
	}
	return b
}

func bufRealEmpty(p *Value) bool {
	st, ok := (*p).(Struct)
	if !ok || len(st) == 0 {
		return false
	}
	s, ok := st[0].(Slice)
	return ok && s.Seq == nil && len(s.A) == 0
}

func registerBytesBuffer() {
	intrinsics["(*bytes.Buffer).Write"] = func(in *Interp, fn *ssa.Function, a []Value) Value {
		p := a[0].(*Value)
		src := a[1].(Slice)
		b := in.bufOf(p)
		if b.st == nil {
			if src.Seq == nil {
				return useReal{}
			}
			if !bufRealEmpty(p) {
				panic(abort("bytes.Buffer: opaque bytes written after concrete bytes"))
			}
			b.st = &SeqObj{}
			b.empty = true
		}
		if src.Seq == nil {
			if len(src.A) == 0 {
				return Tuple{mkBV(64, 0), Iface{}}
			}
			panic(abort("bytes.Buffer: concrete bytes written after opaque bytes"))
		}
		if b.empty {
			*b.st = SeqObj{T: src.Seq.T, Blob: src.Seq.Blob, Len: src.Seq.Len} // overwrites the storage in place
			b.empty = false
		} else {
			old := &SeqObj{T: b.st.T, Blob: b.st.Blob, Len: b.st.Len}
			add := &SeqObj{T: src.Seq.T, Blob: src.Seq.Blob, Len: src.Seq.Len}
			*b.st = SeqObj{Blob: &Blob{Kind: "CAT", Parts: []Value{Slice{Seq: old}, Slice{Seq: add}}, ID: in.newID()}, Len: bvBin("+", old.Len, add.Len, false)}
		}
		return Tuple{src.Seq.Len, Iface{}}
	}
	intrinsics["(*bytes.Buffer).Bytes"] = func(in *Interp, fn *ssa.Function, a []Value) Value {
		p := a[0].(*Value)
		b := in.bufOf(p)
		if b.st == nil {
			return useReal{}
		}
		if b.empty {
			return Slice{}
		}
		return Slice{Seq: b.st} // an alias of the storage
	}
	intrinsics["(*bytes.Buffer).Len"] = func(in *Interp, fn *ssa.Function, a []Value) Value {
		b := in.bufOf(a[0].(*Value))
		if b.st == nil {
			return useReal{}
		}
		if b.empty {
			return mkBV(64, 0)
		}
		return b.st.Len
	}
	reset := func(in *Interp, fn *ssa.Function, a []Value) Value {
		b := in.bufOf(a[0].(*Value))
		if b.st == nil {
			return useReal{}
		}
		b.empty = true
		return in.zeroResults(fn)
	}
	intrinsics["(*bytes.Buffer).Reset"] = reset
	intrinsics["(*bytes.Buffer).Truncate"] = func(in *Interp, fn *ssa.Function, a []Value) Value {
		b := in.bufOf(a[0].(*Value))
		if b.st == nil {
			return useReal{}
		}
		if n, ok := a[1].(Term); ok && n.C && n.U == 0 {
			b.empty = true
			return in.zeroResults(fn)
		}
		panic(abort("bytes.Buffer.Truncate(n>0) on opaque content"))
	}
	for _, m := range []string{"WriteString", "WriteByte", "WriteRune", "Read", "ReadFrom", "WriteTo", "Next", "ReadByte", "ReadBytes", "ReadString", "String", "Grow"} {
		m := m
		intrinsics["(*bytes.Buffer)."+m] = func(in *Interp, fn *ssa.Function, a []Value) Value {
			b := in.bufOf(a[0].(*Value))
			if b.st == nil {
				return useReal{}
			}
			if m == "Grow" {
				return in.zeroResults(fn)
			}
			panic(abort("bytes.Buffer." + m + " on opaque content"))
		}
	}
}

// sync.Pool: Get returns an item that was Put earlier (any of them may have been dropped: the model explores both
// "reused" and "fresh") or calls New. What matters for the properties is that a pooled object is SHARED between the
// caller that put it back and the next caller that gets it.
func registerSyncPool() {
	newField := func(fn *ssa.Function) int {
		st := fn.Signature.Recv().Type().(*types.Pointer).Elem().Underlying().(*types.Struct)
		for i := 0; i < st.NumFields(); i++ {
			if st.Field(i).Name() == "New" {
				return i
			}
		}
		return -1
	}
	intrinsics["(*sync.Pool).Get"] = func(in *Interp, fn *ssa.Function, a []Value) Value {
		p := a[0].(*Value)
		if in.pools == nil {
			in.pools = map[*Value][]Value{}
		}
		if items := in.pools[p]; len(items) > 0 {
			if in.branch(in.freshBool("pool.reuses.item")) {
				it := items[len(items)-1]
				in.pools[p] = items[:len(items)-1]
				in.trace = append(in.trace, "sync.Pool.Get returns an item put back earlier")
				return it
			}
		}
		i := newField(fn)
		nf := (*p).(Struct)[i]
		if isNilValue(nf) {
			return Iface{}
		}
		return in.call(nf, nil)
	}
	intrinsics["(*sync.Pool).Put"] = func(in *Interp, fn *ssa.Function, a []Value) Value {
		p := a[0].(*Value)
		if in.pools == nil {
			in.pools = map[*Value][]Value{}
		}
		in.pools[p] = append(in.pools[p], a[1])
		return nil
	}
	// strings.Clone / internal/stringslite.Clone (strconv's error paths): strings are immutable values here
	for _, n := range []string{"strings.Clone", "internal/stringslite.Clone"} {
		intrinsics[n] = func(in *Interp, fn *ssa.Function, a []Value) Value { return a[0] }
	}
	// sync.Once: the function runs on the first Do of each Once
	intrinsics["(*sync.Once).Do"] = func(in *Interp, fn *ssa.Function, a []Value) Value {
		p := a[0].(*Value)
		if in.onces == nil {
			in.onces = map[*Value]bool{}
		}
		if !in.onces[p] {
			in.onces[p] = true
			in.call(a[1], nil)
		}
		return nil
	}
	// trimming an opaque document: blobs carry no trailing white space in the model; the result aliases the argument
	for _, n := range []string{"bytes.TrimSuffix", "bytes.TrimRight", "bytes.TrimSpace"} {
		prev := intrinsics[n]
		intrinsics[n] = func(in *Interp, fn *ssa.Function, a []Value) Value {
			if s, ok := a[0].(Slice); ok && s.Seq != nil && s.Seq.Blob != nil {
				return s
			}
			if prev != nil {
				return prev(in, fn, a)
			}
			return useReal{}
		}
	}
}
