package main

import (
	"fmt"
	"go/constant"
	"go/token"
	"go/types"
	"os"
	"sort"
	"strings"

	"golang.org/x/tools/go/ssa"
)

// control-flow panics used by the engine
type abortErr struct{ msg string } // unmodelled construct: path inconclusive
type pathEnd struct{ kind string } // path ends (assume-false, violation, infeasible, unwind, blocked)
type goPanic struct {              // a Go-level panic in interpreted code
	val   Value
	msg   string
	where string
}

func abort(msg string) abortErr { return abortErr{msg} }

type varDecl struct {
	Name string
	Tag  string
	Sort string // "bool","bv8","bv32","bv64","str","int"
}

type Violation struct {
	Harness   string
	Label     string
	Decisions []int
	Model     map[string]string
	Vars      []varDecl
	Trace     []string
	Panic     string
	Replay    string // replay verdict
	ReplayDir string
	Known     string // matching known-finding id
}

type deferred struct {
	fn   Value
	args []Value
	inst *ssa.Defer
}

type frame struct {
	in        *Interp
	fn        *ssa.Function
	caller    *frame
	env       map[ssa.Value]Value
	block     *ssa.BasicBlock
	prev      *ssa.BasicBlock
	defers    []deferred
	result    Value
	panicking bool
	panicVal  interface{}
	visits    map[*ssa.BasicBlock]int
}

// Interp executes one path at a time.
type Interp struct {
	L    *Loaded
	spec *HarnessSpec
	sess *Session

	prefix    []int
	decisions []int
	pending   [][]int

	fresh    map[string]int
	vars     []varDecl
	globals  map[*ssa.Global]*Value
	initDone map[*ssa.Package]bool
	mutexes  map[*Value]*Mutex
	guard    map[*Value]*Value // cell -> mutex cell that must be held
	frozen   map[*Value]string
	steps    int
	depth    int
	objID    int
	trace    []string // notable events (ghost log) for evidence/replay
	ghost    map[string]Value
	cur      *frame
	intWraps int // wrap-aware Int-sorted additions/subtractions emitted

	// per-path outcome
	violations        []*Violation
	reached           map[string]bool
	funcsSeen         map[*ssa.Function]int
	stubsSeen         map[string]int
	asserts           int // assertion queries discharged (unsat) on this path
	assumes           []string
	spawned           []deferred
	pcN               int
	gid               int // current goroutine id (0 = main)
	heldLocks         map[*Value]bool
	lockOrder         map[string]bool
	expectPanic       bool
	unknownBranch     int
	opts              *Options
	res               *HarnessResult
	splitOf           map[string][]Term
	ptrIDs            map[*Value]int
	guardsOff         bool
	quotedOf          map[string]Term
	rtypes            map[string]*Value
	ordTerms          []Term
	pureDeclared      map[string]bool
	bufs              map[*Value]*bufState
	pendingConc       []Value
	strVecs           map[string][]Term
	pools             map[*Value][]Value
	raceOn            bool
	raceActor         int
	raceCells         map[interface{}]*raceCell
	onces             map[*Value]bool
	illFormed         map[string]Term
	vfTop             types.Type
	utf8fixDeclared   bool
	blobStrs          map[int]Term
	blobByID          map[int]*Blob
	hints             []string
	jsonClassDeclared bool
	lockCount         map[*Value]int
}

func (in *Interp) newID() int { in.objID++; return in.objID }

func (in *Interp) freshName(tag string) string {
	k := in.fresh[tag]
	in.fresh[tag] = k + 1
	return fmt.Sprintf("%s!%d", tag, k)
}

func quoteSym(n string) string { return "|" + n + "|" }

func (in *Interp) declare(tag string, sort string) (string, string) {
	name := in.freshName(tag)
	var s string
	switch sort {
	case "bool":
		s = "Bool"
	case "str":
		s = "String"
	case "int":
		s = "Int"
	default:
		s = fmt.Sprintf("(_ BitVec %s)", sort[2:])
	}
	in.sess.Cmd(fmt.Sprintf("(declare-const %s %s)", quoteSym(name), s))
	in.vars = append(in.vars, varDecl{Name: name, Tag: tag, Sort: sort})
	return name, quoteSym(name)
}

func (in *Interp) freshBool(tag string) Term {
	_, q := in.declare(tag, "bool")
	return symBool(q)
}
func (in *Interp) freshBV(tag string, w int) Term {
	_, q := in.declare(tag, fmt.Sprintf("bv%d", w))
	return symBV(w, q)
}
func (in *Interp) freshStr(tag string) Term {
	_, q := in.declare(tag, "str")
	return symStr(q)
}
func (in *Interp) freshInt(tag string) Term {
	_, q := in.declare(tag, "int")
	return symInt(q)
}

// assume adds a constraint to the path condition.
func (in *Interp) assume(c Term) {
	if c.C {
		if !c.B {
			panic(pathEnd{"assume-false"})
		}
		return
	}
	in.sess.Cmd("(assert " + c.E + ")")
	in.pcN++
}

// choose picks one of several alternatives guarded by conds (assumed mutually
// exclusive and jointly exhaustive under the path condition).
func (in *Interp) choose(conds []Term) int {
	pos := len(in.decisions)
	in.sess.AtDecision(pos)
	if pos < len(in.prefix) {
		alt := in.prefix[pos]
		in.decisions = append(in.decisions, alt)
		in.sess.PushDecision(pos)
		in.assume(conds[alt])
		return alt
	}
	var feas []int
	for i, c := range conds {
		if c.C {
			if c.B {
				feas = append(feas, i)
			}
			continue
		}
		// last alternative and nothing feasible so far: it must be feasible
		if i == len(conds)-1 && len(feas) == 0 {
			feas = append(feas, i)
			break
		}
		r := in.sess.Check(c.E, "feas")
		if r == Unknown {
			in.unknownBranch++
		}
		if r != Unsat {
			feas = append(feas, i)
		}
	}
	if len(feas) == 0 {
		panic(pathEnd{"infeasible"})
	}
	alt := feas[0]
	for _, j := range feas[1:] {
		p := make([]int, pos+1)
		copy(p, in.decisions)
		p[pos] = j
		in.pending = append(in.pending, p)
	}
	in.decisions = append(in.decisions, alt)
	in.sess.PushDecision(pos)
	in.assume(conds[alt])
	return alt
}

// branch decides a Bool term, forking if needed.
func (in *Interp) branch(c Term) bool {
	if c.C {
		return c.B
	}
	return in.choose([]Term{c, tNot(c)}) == 0
}

// concretize returns a concrete value of a BV term, forking over feasible values.
func (in *Interp) concretize(t Term, what string) uint64 {
	if t.C {
		return t.U
	}
	pos := len(in.decisions)
	in.sess.AtDecision(pos)
	if pos < len(in.prefix) {
		// replay: the decision records the value itself
		v := uint64(in.prefix[pos])
		in.decisions = append(in.decisions, in.prefix[pos])
		in.sess.PushDecision(pos)
		in.assume(tEq(t, mkBV(t.W, v)))
		return v
	}
	const limit = 16
	var vals []uint64
	excl := []Term{}
	for len(vals) < limit {
		ex := tAnd(excl...)
		out := in.sess.roundtrip("(push 1)\n" + assertIf(ex) + "(check-sat)\n(get-value (" + t.E + "))\n(pop 1)")
		var v uint64
		found := false
		joined := strings.Join(out, " ")
		if !strings.Contains(joined, "unsat") && strings.Contains(joined, "sat") {
			if i := strings.LastIndex(joined, "#"); i >= 0 {
				j := i
				for j < len(joined) && joined[j] != ')' && joined[j] != ' ' {
					j++
				}
				v, found = decodeBV(joined[i:j])
			}
		}
		if !found {
			break
		}
		vals = append(vals, v)
		excl = append(excl, tNot(tEq(t, mkBV(t.W, v))))
	}
	if len(vals) == 0 {
		panic(pathEnd{"infeasible"})
	}
	if len(vals) >= limit {
		panic(abort("concretize: too many values for " + what))
	}
	sort.Slice(vals, func(i, j int) bool { return vals[i] < vals[j] })
	for _, v := range vals[1:] {
		p := make([]int, pos+1)
		copy(p, in.decisions)
		p[pos] = int(v)
		in.pending = append(in.pending, p)
	}
	in.decisions = append(in.decisions, int(vals[0]))
	in.sess.PushDecision(pos)
	in.assume(tEq(t, mkBV(t.W, vals[0])))
	return vals[0]
}

func exprOrTrue(t Term) string {
	if t.C {
		if t.B {
			return ""
		}
		return "false"
	}
	return t.E
}
func assertIf(t Term) string {
	e := exprOrTrue(t)
	if e == "" {
		return ""
	}
	return "(assert " + e + ")\n"
}

// ---------- function calls ----------

func (in *Interp) get(fr *frame, v ssa.Value) Value {
	switch x := v.(type) {
	case *ssa.Const:
		return in.constValue(x)
	case *ssa.Global:
		return in.globalAddr(x)
	case *ssa.Function:
		return x
	case *ssa.Builtin:
		return x
	case nil:
		return nil
	}
	if r, ok := fr.env[v]; ok {
		return r
	}
	panic(abort(fmt.Sprintf("get: no value for %s (%T) in %s", v.Name(), v, fr.fn)))
}

func (in *Interp) constValue(c *ssa.Const) Value {
	t := c.Type()
	if c.Value == nil {
		return in.zero(t)
	}
	switch u := t.Underlying().(type) {
	case *types.Basic:
		switch {
		case u.Info()&types.IsBoolean != 0:
			return mkBool(constant.BoolVal(c.Value))
		case u.Info()&types.IsString != 0:
			return mkStr(constant.StringVal(c.Value))
		case u.Info()&types.IsInteger != 0:
			w := intWidth(u)
			if u.Info()&types.IsUnsigned != 0 {
				v, _ := constant.Uint64Val(constant.ToInt(c.Value))
				return mkBV(w, v)
			}
			v, ok := constant.Int64Val(constant.ToInt(c.Value))
			if !ok {
				uv, _ := constant.Uint64Val(constant.ToInt(c.Value))
				return mkBV(w, uv)
			}
			return mkBV(w, uint64(v))
		case u.Info()&types.IsFloat != 0:
			f, _ := constant.Float64Val(c.Value)
			return Float{C: true, V: f}
		}
	}
	panic(abort("constValue " + c.String()))
}

func (in *Interp) globalAddr(g *ssa.Global) *Value {
	if p, ok := in.globals[g]; ok {
		return p
	}
	// run the package initializer of interpreted packages on first touch
	if g.Pkg != nil && in.L.interpretInit(g.Pkg) && !in.initDone[g.Pkg] {
		in.runInit(g.Pkg)
		if p, ok := in.globals[g]; ok {
			return p
		}
	}
	p := new(Value)
	elem := g.Type().(*types.Pointer).Elem()
	*p = in.globalDefault(g, elem)
	in.globals[g] = p
	return p
}

// globalDefault gives uninitialised globals of uninterpreted packages a value:
// error-typed globals become unique sentinel objects.
func (in *Interp) globalDefault(g *ssa.Global, elem types.Type) Value {
	if types.Identical(elem, in.L.errorType) && !(g.Pkg != nil && in.L.interpretInit(g.Pkg)) {
		return in.newSentinel(g.Pkg.Pkg.Path() + "." + g.Name())
	}
	return in.zero(elem)
}

func (in *Interp) newSentinel(name string) Value {
	// represented as *errors.errorString
	return in.makeErrorString(mkStr(name))
}

func (in *Interp) makeErrorString(msg Term) Value {
	es := in.L.errorStringType
	p := new(Value)
	*p = Struct{msg}
	return Iface{T: types.NewPointer(es), V: p}
}

func (in *Interp) runInit(p *ssa.Package) {
	in.initDone[p] = true
	p.Build()
	initFn := p.Func("init")
	if initFn == nil {
		return
	}
	saved := in.cur
	func() {
		defer func() {
			if r := recover(); r != nil {
				if a, ok := r.(abortErr); ok {
					panic(abort(fmt.Sprintf("package initializer of %s not fully modelled: %s", p.Pkg.Path(), a.msg)))
				}
				panic(r)
			}
		}()
		in.callFunction(initFn, nil, nil)
	}()
	in.cur = saved
}

// call dispatches a call to any function value.
func (in *Interp) call(fnv Value, args []Value) Value {
	switch f := fnv.(type) {
	case *ssa.Function:
		return in.callFn(f, args, nil)
	case *Closure:
		if f == nil {
			panic(goPanic{msg: "call of nil func"})
		}
		return in.callFn(f.Fn, args, f.Env)
	case *Native:
		return f.Fn(in, args)
	case *BoundMethod:
		return in.call(f.Fn, append([]Value{f.Recv}, args...))
	case NilFunc, nil:
		panic(goPanic{msg: "runtime error: invalid memory address or nil pointer dereference (nil func)"})
	}
	panic(abort(fmt.Sprintf("call of %T", fnv)))
}

func fullName(fn *ssa.Function) string {
	if o := fn.Origin(); o != nil {
		return o.String()
	}
	return fn.String()
}

func (in *Interp) callFn(fn *ssa.Function, args []Value, env []Value) Value {
	name := fullName(fn)
	if fn.Synthetic == "package initializer" {
		if fn.Pkg != nil && in.L.eagerInit(fn.Pkg) && !in.initDone[fn.Pkg] {
			in.runInit(fn.Pkg)
		}
		return nil
	}
	// 1. harness primitives
	if fn.Pkg != nil || fn.Origin() != nil {
		pk := fn.Pkg
		if pk == nil {
			pk = fn.Origin().Pkg
		}
		if pk != nil && in.L.isHarnessPkg(pk) {
			short := fn.Name()
			if o := fn.Origin(); o != nil {
				short = o.Name()
			}
			if p, ok := prims[short]; ok {
				return p(in, fn, args)
			}
		}
	}
	// 2. per-harness stubs
	if in.spec != nil {
		if tgt, ok := in.spec.Stubs[name]; ok {
			in.stubsSeen[name+" => "+tgt]++
			if strings.HasPrefix(tgt, "engine:") {
				f, ok := intrinsics[tgt]
				if !ok {
					panic(abort("no engine stub " + tgt))
				}
				return f(in, fn, args)
			}
			if tgt == "real" {
				goto real
			}
			hf := in.L.harnessFunc(in.spec.Pkg, tgt)
			if hf == nil {
				panic(abort("harness stub not found: " + tgt))
			}
			return in.callFunction(hf, args, nil)
		}
	}
	// 3. engine intrinsics
	if f, ok := intrinsics[name]; ok {
		r := f(in, fn, args)
		if _, fallThrough := r.(useReal); !fallThrough {
			in.stubsSeen[name]++
			return r
		}
	}
real:
	// 4. interpret the body
	if fn.Blocks == nil {
		if fn.Pkg != nil {
			fn.Pkg.Build()
		}
		if fn.Blocks == nil {
			panic(abort("unmodelled call (no body): " + name))
		}
	}
	if in.L.denyInterpret(fn) {
		panic(abort("unmodelled call (package not interpreted): " + name))
	}
	return in.callFunction(fn, args, env)
}

const maxDepth = 200

func (in *Interp) callFunction(fn *ssa.Function, args []Value, env []Value) Value {
	if fn.Blocks == nil {
		if fn.Pkg != nil {
			fn.Pkg.Build()
		}
		if fn.Blocks == nil {
			panic(abort("no body: " + fn.String()))
		}
	}
	if os.Getenv("GOSYM_DBGFN") != "" && fn.Name() == os.Getenv("GOSYM_DBGFN") && in.funcsSeen[fn] == 0 {
		fn.WriteTo(os.Stderr)
	}
	in.depth++
	if in.depth > maxDepth {
		panic(abort("call depth exceeded in " + fn.String()))
	}
	defer func() { in.depth-- }()
	in.funcsSeen[fn]++
	fr := &frame{in: in, fn: fn, caller: in.cur, env: make(map[ssa.Value]Value), visits: map[*ssa.BasicBlock]int{}}
	in.cur = fr
	defer func() { in.cur = fr.caller }()
	for i, p := range fn.Params {
		if i >= len(args) {
			panic(abort(fmt.Sprintf("arity mismatch calling %s: %d args", fn, len(args))))
		}
		fr.env[p] = args[i]
	}
	for i, fv := range fn.FreeVars {
		fr.env[fv] = env[i]
	}
	fr.block = fn.Blocks[0]
	for fr.block != nil {
		in.runFrame(fr)
	}
	return fr.result
}

func (in *Interp) runFrame(fr *frame) {
	defer func() {
		if fr.block == nil {
			return // normal return
		}
		r := recover()
		gp, ok := r.(goPanic)
		if !ok {
			panic(r) // engine control flow: propagate untouched
		}
		if gp.where == "" {
			in.cur = fr
			gp.where = in.where()
		}
		fr.panicking = true
		fr.panicVal = gp
		in.cur = fr
		in.runDefers(fr)
		// recovered
		fr.block = fr.fn.Recover
		if fr.block == nil {
			// no named results: return zero values
			fr.result = in.zeroResults(fr.fn)
		}
	}()
	for {
		if in.spec != nil {
			fr.visits[fr.block]++
			if fr.visits[fr.block] > in.unwindFor(fr.fn) {
				panic(pathEnd{"unwind:" + fr.fn.String()})
			}
		}
		var next *ssa.BasicBlock
		for _, instr := range fr.block.Instrs {
			in.steps++
			if in.steps > in.maxSteps() {
				panic(abort("step budget exceeded"))
			}
			switch x := instr.(type) {
			case *ssa.Jump:
				next = fr.block.Succs[0]
			case *ssa.If:
				c := in.get(fr, x.Cond).(Term)
				if in.branch(c) {
					next = fr.block.Succs[0]
				} else {
					next = fr.block.Succs[1]
				}
			case *ssa.Return:
				switch len(x.Results) {
				case 0:
				case 1:
					fr.result = in.get(fr, x.Results[0])
				default:
					t := make(Tuple, len(x.Results))
					for i, r := range x.Results {
						t[i] = in.get(fr, r)
					}
					fr.result = t
				}
				fr.block = nil
				return
			case *ssa.Panic:
				v := in.get(fr, x.X)
				panic(goPanic{val: v, msg: in.panicString(v)})
			default:
				in.exec(fr, instr)
			}
		}
		fr.prev, fr.block = fr.block, next
		if next == nil {
			panic(abort("fell off block in " + fr.fn.String()))
		}
	}
}

func (in *Interp) zeroResults(fn *ssa.Function) Value {
	res := fn.Signature.Results()
	switch res.Len() {
	case 0:
		return nil
	case 1:
		return in.zero(res.At(0).Type())
	}
	return in.zero(res)
}

func (in *Interp) runDefers(fr *frame) {
	for len(fr.defers) > 0 {
		d := fr.defers[len(fr.defers)-1]
		fr.defers = fr.defers[:len(fr.defers)-1]
		func() {
			defer func() {
				if r := recover(); r != nil {
					gp, ok := r.(goPanic)
					if !ok {
						panic(r)
					}
					// a panic in a deferred call replaces the current one
					fr.panicking = true
					fr.panicVal = gp
				}
			}()
			in.cur = fr
			if b, ok := d.fn.(*ssa.Builtin); ok {
				in.builtin(fr, b, &d.inst.Call, d.args)
			} else {
				in.call(d.fn, d.args)
			}
		}()
	}
	if fr.panicking {
		panic(fr.panicVal)
	}
}

func (in *Interp) panicString(v Value) string {
	if it, ok := v.(Iface); ok {
		if t, ok := it.V.(Term); ok && t.S == SStr && t.C {
			return t.Str
		}
		if it.T != nil {
			return "panic(" + it.T.String() + ")"
		}
	}
	return "panic"
}

func (in *Interp) unwindFor(fn *ssa.Function) int {
	if in.spec == nil {
		return 1 << 30
	}
	if n, ok := in.spec.UnwindFn[fn.String()]; ok {
		return n + 1
	}
	if in.spec.Unwind > 0 {
		return in.spec.Unwind + 1
	}
	return 257
}

func (in *Interp) maxSteps() int {
	if in.spec != nil && in.spec.MaxSteps > 0 {
		return in.spec.MaxSteps
	}
	return 2000000
}

// ---------- instructions ----------

func (in *Interp) exec(fr *frame, instr ssa.Instruction) {
	switch x := instr.(type) {
	case *ssa.DebugRef:
	case *ssa.Alloc:
		p := new(Value)
		*p = in.zero(x.Type().(*types.Pointer).Elem())
		fr.env[x] = p
	case *ssa.UnOp:
		fr.env[x] = in.unop(fr, x)
	case *ssa.BinOp:
		fr.env[x] = in.binop(x.Op, x.X.Type(), in.get(fr, x.X), in.get(fr, x.Y))
	case *ssa.Call:
		fr.env[x] = in.callInstr(fr, &x.Call)
	case *ssa.ChangeInterface:
		fr.env[x] = in.get(fr, x.X)
	case *ssa.ChangeType:
		fr.env[x] = in.get(fr, x.X)
	case *ssa.Convert:
		fr.env[x] = in.convert(x.X.Type(), x.Type(), in.get(fr, x.X))
	case *ssa.Extract:
		fr.env[x] = in.get(fr, x.Tuple).(Tuple)[x.Index]
	case *ssa.Field:
		v := in.get(fr, x.X)
		s, ok := v.(Struct)
		if !ok {
			panic(abort(fmt.Sprintf("Field on %T in %s", v, fr.fn)))
		}
		fr.env[x] = copyVal(s[x.Field])
	case *ssa.FieldAddr:
		p, ok := in.get(fr, x.X).(*Value)
		if !ok {
			panic(abort(fmt.Sprintf("FieldAddr on %T in %s", in.get(fr, x.X), fr.fn)))
		}
		if p == nil {
			panic(goPanic{msg: "runtime error: invalid memory address or nil pointer dereference"})
		}
		s, ok := (*p).(Struct)
		if !ok {
			panic(abort(fmt.Sprintf("FieldAddr: pointee is %T in %s", *p, fr.fn)))
		}
		fr.env[x] = &s[x.Field]
	case *ssa.Index:
		fr.env[x] = in.index(fr, x)
	case *ssa.IndexAddr:
		fr.env[x] = in.indexAddr(fr, x)
	case *ssa.Lookup:
		fr.env[x] = in.lookup(fr, x)
	case *ssa.MakeChan:
		n := in.get(fr, x.Size).(Term)
		fr.env[x] = &ChanObj{Cap: int(in.concretize(n, "chan size")), ID: in.newID()}
	case *ssa.MakeClosure:
		c := &Closure{Fn: x.Fn.(*ssa.Function)}
		for _, b := range x.Bindings {
			c.Env = append(c.Env, in.get(fr, b))
		}
		fr.env[x] = c
	case *ssa.MakeInterface:
		fr.env[x] = Iface{T: x.X.Type(), V: in.get(fr, x.X)}
	case *ssa.MakeMap:
		fr.env[x] = &MapObj{T: x.Type().Underlying().(*types.Map), ID: in.newID()}
	case *ssa.MakeSlice:
		ln := int(in.concretize(in.get(fr, x.Len).(Term), "make len"))
		cp := int(in.concretize(in.get(fr, x.Cap).(Term), "make cap"))
		et := x.Type().Underlying().(*types.Slice).Elem()
		a := make([]Value, cp)
		for i := range a {
			a[i] = in.zero(et)
		}
		fr.env[x] = Slice{A: a[:ln]}
	case *ssa.MapUpdate:
		m := in.get(fr, x.Map).(*MapObj)
		in.mapUpdate(m, in.get(fr, x.Key), copyVal(in.get(fr, x.Value)))
	case *ssa.Range:
		fr.env[x] = in.rangeStart(in.get(fr, x.X))
	case *ssa.Next:
		fr.env[x] = in.rangeNext(in.get(fr, x.Iter).(*rangeIter), x)
	case *ssa.Phi:
		for i, pred := range fr.block.Preds {
			if pred == fr.prev {
				fr.env[x] = in.get(fr, x.Edges[i])
				break
			}
		}
	case *ssa.Select:
		fr.env[x] = in.selectInstr(fr, x)
	case *ssa.Send:
		in.chanSend(in.get(fr, x.Chan).(*ChanObj), in.get(fr, x.X))
	case *ssa.Slice:
		fr.env[x] = in.sliceOp(fr, x)
	case *ssa.Store:
		if se, isSym := in.get(fr, x.Addr).(*symElem); isSym {
			i := int(in.concretize(se.idx, "store index"))
			if i < 0 || i >= len(se.elems) {
				panic(goPanic{msg: "runtime error: index out of range"})
			}
			in.onStore(&se.elems[i])
			assignInPlace(&se.elems[i], copyVal(in.get(fr, x.Val)))
			return
		}
		p, ok := in.get(fr, x.Addr).(*Value)
		if !ok {
			panic(abort(fmt.Sprintf("Store to %T", in.get(fr, x.Addr))))
		}
		if p == nil {
			panic(goPanic{msg: "runtime error: invalid memory address or nil pointer dereference"})
		}
		in.onStore(p)
		assignInPlace(p, copyVal(in.get(fr, x.Val)))
	case *ssa.TypeAssert:
		fr.env[x] = in.typeAssert(x, in.get(fr, x.X))
	case *ssa.Go:
		fn, args := in.prepareCall(fr, &x.Call)
		in.spawned = append(in.spawned, deferred{fn: fn, args: args})
		in.trace = append(in.trace, "go "+x.Call.String())
	case *ssa.Defer:
		fn, args := in.prepareCall(fr, &x.Call)
		fr.defers = append(fr.defers, deferred{fn: fn, args: args, inst: x})
	case *ssa.RunDefers:
		in.runDefers(fr)
	default:
		panic(abort(fmt.Sprintf("unmodelled instruction %T in %s", instr, fr.fn)))
	}
}

func (in *Interp) unop(fr *frame, x *ssa.UnOp) Value {
	v := in.get(fr, x.X)
	switch x.Op {
	case token.MUL: // load
		if se, isSym := v.(*symElem); isSym {
			return in.symLoad(se)
		}
		p, ok := v.(*Value)
		if !ok {
			panic(abort(fmt.Sprintf("load through %T in %s", v, fr.fn)))
		}
		if p == nil {
			panic(goPanic{msg: "runtime error: invalid memory address or nil pointer dereference"})
		}
		in.onLoad(p)
		if *p == nil {
			// lazily typed zero (e.g. nil interface cell)
			return in.zero(x.Type())
		}
		return copyVal(*p)
	case token.NOT:
		return tNot(v.(Term))
	case token.SUB:
		if f, ok := v.(Float); ok {
			return Float{C: f.C, V: -f.V}
		}
		return bvNeg(v.(Term))
	case token.XOR:
		return bvNot(v.(Term))
	case token.ARROW:
		return in.chanRecv(v.(*ChanObj), x.CommaOk, x.Type())
	}
	panic(abort("unop " + x.Op.String()))
}

func (in *Interp) binop(op token.Token, xt types.Type, a, b Value) Value {
	switch op {
	case token.EQL:
		return in.valEq(a, b)
	case token.NEQ:
		return tNot(in.valEq(a, b))
	}
	if fa, ok := a.(Float); ok {
		fb := b.(Float)
		c := fa.C && fb.C
		switch op {
		case token.ADD:
			return Float{C: c, V: fa.V + fb.V}
		case token.SUB:
			return Float{C: c, V: fa.V - fb.V}
		case token.MUL:
			return Float{C: c, V: fa.V * fb.V}
		case token.QUO:
			return Float{C: c, V: fa.V / fb.V}
		case token.LSS, token.LEQ, token.GTR, token.GEQ:
			if !c {
				return in.freshBool("floatcmp")
			}
			switch op {
			case token.LSS:
				return mkBool(fa.V < fb.V)
			case token.LEQ:
				return mkBool(fa.V <= fb.V)
			case token.GTR:
				return mkBool(fa.V > fb.V)
			default:
				return mkBool(fa.V >= fb.V)
			}
		}
		panic(abort("float binop " + op.String()))
	}
	x, ok1 := a.(Term)
	y, ok2 := b.(Term)
	if !ok1 || !ok2 {
		panic(abort(fmt.Sprintf("binop %s on %T,%T", op, a, b)))
	}
	if x.S == SStr {
		switch op {
		case token.ADD:
			return strConcat(x, y)
		case token.LSS:
			return in.strLess(x, y)
		case token.GTR:
			return in.strLess(y, x)
		case token.LEQ:
			return tNot(in.strLess(y, x))
		case token.GEQ:
			return tNot(in.strLess(x, y))
		}
		panic(abort("string binop " + op.String()))
	}
	if x.S == SBool {
		switch op {
		case token.AND, token.LAND:
			return tAnd(x, y)
		case token.OR, token.LOR:
			return tOr(x, y)
		}
	}
	signed := isSigned(xt)
	if x.S == SInt || y.S == SInt {
		// mathematical-integer carried int64 (ghost clock quantities). Sums and differences computed by the code under
		// test wrap around as the machine's do (one correction by 2^64 suffices for + and -); products, and the
		// arithmetic of the harnesses' own oracles, stay mathematical
		x, y = toInt(x, signed), toInt(y, signed)
		switch op {
		case token.ADD, token.SUB, token.MUL:
			r := intBin(op.String(), x, y)
			if op != token.MUL && signed && !r.C {
				if bt, ok := xt.Underlying().(*types.Basic); ok && (bt.Kind() == types.Int64 || bt.Kind() == types.Int) {
					if _, repo := in.raceRepoCode(); repo {
						in.intWraps++
						two64 := "18446744073709551616"
						rs := r.smt()
						r = symInt("(ite (> " + rs + " 9223372036854775807) (- " + rs + " " + two64 + ") (ite (< " + rs + " (- 9223372036854775808)) (+ " + rs + " " + two64 + ") " + rs + "))")
					}
				}
			}
			return r
		case token.QUO, token.REM:
			// Go truncates towards zero, SMT div floors: spell the truncated quotient out over absolute values
			if in.branch(tEq(y, mkInt(0))) {
				panic(goPanic{msg: "runtime error: integer divide by zero"})
			}
			var q Term
			if x.C && y.C {
				q = mkInt(int64(x.U) / int64(y.U))
			} else {
				ax := "(abs " + x.smt() + ")"
				ay := "(abs " + y.smt() + ")"
				mag := "(div " + ax + " " + ay + ")"
				q = symInt("(ite (= (>= " + x.smt() + " 0) (> " + y.smt() + " 0)) " + mag + " (- " + mag + "))")
			}
			if op == token.QUO {
				return q
			}
			return intBin("-", x, intBin("*", y, q))
		case token.LSS, token.LEQ, token.GTR, token.GEQ:
			return intCmp(op.String(), x, y)
		}
		panic(abort("operator " + op.String() + " on a mathematical-integer value"))
	}
	switch op {
	case token.ADD, token.SUB, token.MUL, token.AND, token.OR, token.XOR, token.AND_NOT:
		return bvBin(op.String(), x, y, signed)
	case token.QUO, token.REM:
		zero := tEq(y, mkBV(y.W, 0))
		if in.branch(zero) {
			panic(goPanic{msg: "runtime error: integer divide by zero"})
		}
		return bvBin(op.String(), x, y, signed)
	case token.SHL, token.SHR:
		// shift count may have a different width/signedness
		c := y
		if c.W != x.W {
			if c.W < x.W {
				c = bvConv(c, x.W, false)
			} else {
				// count wider than operand: saturate
				big := bvCmp(">=", c, mkBV(c.W, uint64(x.W)), false)
				c = tIte(big, mkBV(x.W, uint64(x.W)), bvConv(c, x.W, false))
			}
		}
		return bvShift(op.String(), x, c, signed)
	case token.LSS, token.LEQ, token.GTR, token.GEQ:
		return bvCmp(op.String(), x, y, signed)
	}
	panic(abort("binop " + op.String()))
}

func (in *Interp) convert(src, dst types.Type, v Value) Value {
	su, du := src.Underlying(), dst.Underlying()
	if sb, ok := su.(*types.Basic); ok {
		if db, ok := du.(*types.Basic); ok {
			switch {
			case sb.Info()&types.IsInteger != 0 && db.Info()&types.IsInteger != 0:
				if t := v.(Term); t.S == SInt {
					if intWidth(db) != 64 {
						if t.C {
							return mkBV(intWidth(db), t.U)
						}
						// Go truncates to the low bits; int2bv is exactly that for values inside int64
						return symBV(intWidth(db), fmt.Sprintf("((_ int2bv %d) %s)", intWidth(db), t.E))
					}
					return t
				}
				return bvConv(v.(Term), intWidth(db), sb.Info()&types.IsUnsigned == 0)
			case sb.Info()&types.IsString != 0 && db.Info()&types.IsString != 0:
				return v
			case sb.Info()&types.IsInteger != 0 && db.Info()&types.IsFloat != 0:
				t := v.(Term)
				if t.C {
					if sb.Info()&types.IsUnsigned != 0 {
						return Float{C: true, V: float64(t.U)}
					}
					return Float{C: true, V: float64(t.sval())}
				}
				return Float{}
			case sb.Info()&types.IsFloat != 0 && db.Info()&types.IsFloat != 0:
				return v
			case sb.Info()&types.IsFloat != 0 && db.Info()&types.IsInteger != 0:
				f := v.(Float)
				if f.C {
					return mkBV(intWidth(db), uint64(int64(f.V)))
				}
				return in.freshBV("float2int", intWidth(db))
			case sb.Info()&types.IsInteger != 0 && db.Info()&types.IsString != 0:
				t := v.(Term)
				if t.C {
					return mkStr(string(rune(t.sval())))
				}
				panic(abort("string(symbolic rune)"))
			case sb.Kind() == types.UnsafePointer || db.Kind() == types.UnsafePointer:
				return v
			}
		}
		// string -> []byte / []rune
		if sl, ok := du.(*types.Slice); ok && sb.Info()&types.IsString != 0 {
			eb, _ := sl.Elem().Underlying().(*types.Basic)
			t := v.(Term)
			if eb != nil && eb.Kind() == types.Uint8 {
				return in.stringToBytes(t)
			}
			if t.C {
				var a []Value
				for _, r := range t.Str {
					a = append(a, mkBV(32, uint64(r)))
				}
				return Slice{A: a}
			}
			panic(abort("[]rune(symbolic string)"))
		}
	}
	if sl, ok := su.(*types.Slice); ok {
		if db, ok := du.(*types.Basic); ok && db.Info()&types.IsString != 0 {
			eb, _ := sl.Elem().Underlying().(*types.Basic)
			if eb != nil && eb.Kind() == types.Uint8 {
				return in.bytesToString(v.(Slice))
			}
			// []rune -> string
			s := v.(Slice)
			var sb strings.Builder
			for _, e := range s.A {
				t := e.(Term)
				if !t.C {
					panic(abort("string([]rune symbolic)"))
				}
				sb.WriteRune(rune(t.sval()))
			}
			return mkStr(sb.String())
		}
	}
	if _, ok := du.(*types.Pointer); ok {
		return v
	}
	panic(abort(fmt.Sprintf("convert %s -> %s", src, dst)))
}

func (in *Interp) stringToBytes(t Term) Slice {
	if t.C || t.IsV {
		vec := strToVec(t)
		a := make([]Value, len(vec))
		for i := range vec {
			a[i] = vec[i]
		}
		return Slice{A: a}
	}
	return Slice{Seq: &SeqObj{T: t, Len: strLen(t)}}
}

func (in *Interp) bytesToString(s Slice) Term {
	if s.Seq != nil {
		if s.Seq.Blob != nil {
			// the text of a structured document is opaque: one String per blob
			if in.blobStrs == nil {
				in.blobStrs = map[int]Term{}
			}
			t, ok := in.blobStrs[s.Seq.Blob.ID]
			if !ok {
				t = in.freshStr("blobtext")
				// a document's text is never empty, and two documents have the same text exactly when they are structurally equal
				in.assume(tNot(tEq(t, mkStr(""))))
				for id, u := range in.blobStrs {
					if other := in.blobByID[id]; other != nil {
						in.assume(tEq(tEq(t, u), in.blobEq(s.Seq.Blob, other)))
					}
				}
				in.blobStrs[s.Seq.Blob.ID] = t
				if in.blobByID == nil {
					in.blobByID = map[int]*Blob{}
				}
				in.blobByID[s.Seq.Blob.ID] = s.Seq.Blob
			}
			return t
		}
		return s.Seq.T
	}
	vec := make([]Term, len(s.A))
	allC := true
	for i, e := range s.A {
		vec[i] = e.(Term)
		if !vec[i].C {
			allC = false
		}
	}
	if allC {
		bs := make([]byte, len(vec))
		for i := range vec {
			bs[i] = byte(vec[i].U)
		}
		return mkStr(string(bs))
	}
	return vecStr(vec)
}

func (in *Interp) index(fr *frame, x *ssa.Index) Value {
	v := in.get(fr, x.X)
	idx := in.get(fr, x.Index).(Term)
	switch a := v.(type) {
	case Array:
		i := int(in.concretize(idx, "array index"))
		if i < 0 || i >= len(a) {
			panic(goPanic{msg: "runtime error: index out of range"})
		}
		return copyVal(a[i])
	case Term: // string
		return in.strIndex(a, idx)
	}
	panic(abort(fmt.Sprintf("Index on %T", v)))
}

func (in *Interp) strIndex(s Term, idx Term) Value {
	if s.C || s.IsV {
		vec := strToVec(s)
		if idx.C {
			i := int(int64(idx.U))
			if i < 0 || i >= len(vec) {
				panic(goPanic{msg: "runtime error: index out of range"})
			}
			return vec[i]
		}
		// symbolic index: in-range check then ite chain
		inr := bvCmp("<", idx, mkBV(64, uint64(len(vec))), false)
		if !in.branch(inr) {
			panic(goPanic{msg: "runtime error: index out of range"})
		}
		r := mkBV(8, 0)
		for i := len(vec) - 1; i >= 0; i-- {
			r = tIte(tEq(idx, mkBV(64, uint64(i))), vec[i], r)
		}
		return r
	}
	// a symbolic string read byte by byte: split on its length and name its bytes (characters 0..255 on this path)
	return in.strIndex(vecStr(in.strAsVec(s)), idx)
}

// strAsVec gives a symbolic string a concrete length (one decision per feasible length: the harness must bound it) and
// fresh byte variables b_i with s = b_0 … b_{n-1}. Stated restriction: on such a path the string's characters are
// code points 0..255 (one byte each), i.e. code that walks a string byte-wise is decided over Latin-1 texts.
const byteWiseMaxLen = 4

func (in *Interp) strAsVec(s Term) []Term {
	key := s.smt()
	if v, ok := in.strVecs[key]; ok {
		return v
	}
	// byte-wise walks branch per byte: keep the strings short on such paths (stated restriction, see DESIGN §11.2)
	in.assume(bvCmp("<=", strLen(s), mkBV(64, byteWiseMaxLen), false))
	n := int(in.concretize(strLen(s), "length of a string that is read byte-wise"))
	vec := make([]Term, n)
	for i := range vec {
		vec[i] = in.freshBV("strbyte", 8)
	}
	in.assume(tEq(s, vecStr(vec)))
	if in.strVecs == nil {
		in.strVecs = map[string][]Term{}
	}
	in.strVecs[key] = vec
	in.trace = append(in.trace, fmt.Sprintf("string read byte-wise: length fixed to %d (<= %d) on this path, characters restricted to 0..255", n, byteWiseMaxLen))
	return vec
}

func (in *Interp) indexAddr(fr *frame, x *ssa.IndexAddr) Value {
	v := in.get(fr, x.X)
	idx := in.get(fr, x.Index).(Term)
	var elems []Value
	switch a := v.(type) {
	case Slice:
		if a.Seq != nil {
			panic(abort("IndexAddr into opaque byte sequence in " + fr.fn.String()))
		}
		elems = a.A
	case *Value:
		if a == nil {
			panic(goPanic{msg: "runtime error: invalid memory address or nil pointer dereference"})
		}
		arr, ok := (*a).(Array)
		if !ok {
			panic(abort(fmt.Sprintf("IndexAddr on ptr to %T", *a)))
		}
		elems = arr
	default:
		panic(abort(fmt.Sprintf("IndexAddr on %T", v)))
	}
	if !idx.C {
		// constant tables indexed by a symbolic value are handled by symIndexLoad at the load site
		return &symElem{elems: elems, idx: idx, et: x.Type().(*types.Pointer).Elem()}
	}
	i := int(int64(idx.U))
	if i < 0 || i >= len(elems) {
		panic(goPanic{msg: "runtime error: index out of range"})
	}
	return &elems[i]
}

// symElem is the address of elems[idx] for a symbolic idx. Only loads are
// supported (ite chain); stores fork.
type symElem struct {
	elems []Value
	idx   Term
	et    types.Type
}

func (in *Interp) lookup(fr *frame, x *ssa.Lookup) Value {
	v := in.get(fr, x.X)
	k := in.get(fr, x.Index)
	switch m := v.(type) {
	case *MapObj:
		return in.mapLookup(m, k, x.CommaOk, x.X.Type().Underlying().(*types.Map).Elem())
	case Term:
		return in.strIndex(m, k.(Term))
	}
	panic(abort(fmt.Sprintf("Lookup on %T", v)))
}

func (in *Interp) sliceOp(fr *frame, x *ssa.Slice) Value {
	v := in.get(fr, x.X)
	geti := func(e ssa.Value, def int) int {
		if e == nil {
			return def
		}
		return int(int64(in.concretize(in.get(fr, e).(Term), "slice bound")))
	}
	switch a := v.(type) {
	case Slice:
		if a.Seq != nil {
			if x.Low == nil && x.High == nil {
				return a
			}
			panic(abort("slicing opaque byte sequence in " + fr.fn.String()))
		}
		lo := geti(x.Low, 0)
		hi := geti(x.High, len(a.A))
		mx := geti(x.Max, cap(a.A))
		if lo < 0 || hi < lo || mx < hi || mx > cap(a.A) {
			panic(goPanic{msg: "runtime error: slice bounds out of range"})
		}
		if a.Nil && hi == 0 {
			return a
		}
		return Slice{A: a.A[lo:hi:mx]}
	case Term:
		if !a.C && !a.IsV {
			if v, ok := in.strVecs[a.smt()]; ok {
				a = vecStr(v)
			}
		}
		if a.C || a.IsV {
			vec := strToVec(a)
			lo := geti(x.Low, 0)
			hi := geti(x.High, len(vec))
			if lo < 0 || hi < lo || hi > len(vec) {
				panic(goPanic{msg: "runtime error: slice bounds out of range"})
			}
			if a.C {
				return mkStr(a.Str[lo:hi])
			}
			return vecStr(vec[lo:hi])
		}
		if x.High == nil {
			if x.Low == nil {
				return a
			}
			lo := geti(x.Low, 0)
			okc := bvCmp("<=", mkBV(64, uint64(lo)), strLen(a), false)
			if !in.branch(okc) {
				panic(goPanic{msg: "runtime error: slice bounds out of range"})
			}
			return strAfterPrefix(a, lo)
		}
		panic(abort("slicing symbolic String"))
	case *Value:
		arr := (*a).(Array)
		lo := geti(x.Low, 0)
		hi := geti(x.High, len(arr))
		mx := geti(x.Max, len(arr))
		if lo < 0 || hi < lo || mx < hi || mx > len(arr) {
			panic(goPanic{msg: "runtime error: slice bounds out of range"})
		}
		return Slice{A: []Value(arr)[lo:hi:mx]}
	}
	panic(abort(fmt.Sprintf("Slice on %T", v)))
}

func (in *Interp) typeAssert(x *ssa.TypeAssert, v Value) Value {
	it, ok := v.(Iface)
	if !ok {
		panic(abort(fmt.Sprintf("TypeAssert on %T", v)))
	}
	okk := false
	if it.T != nil {
		if ai, isI := x.AssertedType.Underlying().(*types.Interface); isI {
			okk = in.implements(it.T, ai)
		} else {
			okk = types.Identical(it.T, x.AssertedType)
		}
	}
	var res Value
	if okk {
		if _, isI := x.AssertedType.Underlying().(*types.Interface); isI {
			res = it
		} else {
			res = it.V
		}
	} else {
		res = in.zero(x.AssertedType)
	}
	if x.CommaOk {
		return Tuple{res, mkBool(okk)}
	}
	if !okk {
		panic(goPanic{msg: fmt.Sprintf("interface conversion: %v is not %v", it.T, x.AssertedType)})
	}
	return res
}

func (in *Interp) implements(t types.Type, i *types.Interface) bool {
	if i.NumMethods() == 0 {
		return true
	}
	ms := in.L.prog.MethodSets.MethodSet(t)
	for k := 0; k < i.NumMethods(); k++ {
		m := i.Method(k)
		sel := ms.Lookup(m.Pkg(), m.Name())
		if sel == nil {
			return false
		}
		if !types.Identical(sel.Type(), m.Type()) {
			return false
		}
	}
	return true
}

func (in *Interp) prepareCall(fr *frame, c *ssa.CallCommon) (Value, []Value) {
	var args []Value
	var fn Value
	if c.IsInvoke() {
		recv, ok := in.get(fr, c.Value).(Iface)
		if !ok {
			panic(abort(fmt.Sprintf("invoke on %T", in.get(fr, c.Value))))
		}
		if recv.T == nil {
			panic(goPanic{msg: "runtime error: invalid memory address or nil pointer dereference (nil interface method call " + c.Method.Name() + ")"})
		}
		m := in.L.prog.LookupMethod(recv.T, c.Method.Pkg(), c.Method.Name())
		if m == nil {
			panic(abort(fmt.Sprintf("method %s not found on %s", c.Method.Name(), recv.T)))
		}
		fn = m
		args = append(args, recv.V)
	} else {
		fn = in.get(fr, c.Value)
	}
	for _, a := range c.Args {
		args = append(args, copyVal(in.get(fr, a)))
	}
	return fn, args
}

func (in *Interp) callInstr(fr *frame, c *ssa.CallCommon) Value {
	fn, args := in.prepareCall(fr, c)
	if b, ok := fn.(*ssa.Builtin); ok {
		return in.builtin(fr, b, c, args)
	}
	return in.call(fn, args)
}

func (in *Interp) builtin(fr *frame, b *ssa.Builtin, c *ssa.CallCommon, args []Value) Value {
	switch b.Name() {
	case "len":
		switch a := args[0].(type) {
		case Term:
			if !a.C && !a.IsV {
				if v, ok := in.strVecs[a.smt()]; ok {
					return mkBV(64, uint64(len(v))) // fixed when the string was first read byte-wise
				}
			}
			return strLen(a)
		case Slice:
			if a.Seq != nil {
				return a.Seq.Len
			}
			return mkBV(64, uint64(len(a.A)))
		case Array:
			return mkBV(64, uint64(len(a)))
		case *MapObj:
			return in.mapLen(a)
		case *ChanObj:
			return mkBV(64, uint64(len(a.Buf)))
		case *Value:
			return mkBV(64, uint64(len((*a).(Array))))
		}
	case "cap":
		switch a := args[0].(type) {
		case Slice:
			if a.Seq != nil {
				return a.Seq.Len
			}
			return mkBV(64, uint64(cap(a.A)))
		case Array:
			return mkBV(64, uint64(len(a)))
		case *ChanObj:
			return mkBV(64, uint64(a.Cap))
		}
	case "append":
		s := args[0].(Slice)
		switch t := args[1].(type) {
		case Slice:
			if t.Seq != nil || s.Seq != nil {
				if len(s.A) == 0 && s.Seq == nil {
					// append([]byte(nil), seq...) : a copy
					return Slice{Seq: &SeqObj{T: t.Seq.T, Blob: t.Seq.Blob, Len: t.Seq.Len}}
				}
				panic(abort("append with opaque byte sequence"))
			}
			if len(t.A) == 0 {
				return s
			}
			n := make([]Value, len(s.A), len(s.A)+len(t.A))
			if len(s.A)+len(t.A) <= cap(s.A) {
				n = s.A
			} else {
				copy(n, s.A)
			}
			for _, e := range t.A {
				n = append(n, copyVal(e))
			}
			return Slice{A: n}
		case Term: // append([]byte, string...)
			if t.C || t.IsV {
				n := append([]Value(nil), s.A...)
				for _, e := range strToVec(t) {
					n = append(n, e)
				}
				return Slice{A: n}
			}
			if len(s.A) == 0 && s.Seq == nil {
				return Slice{Seq: &SeqObj{T: t, Len: strLen(t)}}
			}
			panic(abort("append symbolic string to bytes"))
		}
	case "copy":
		d := args[0].(Slice)
		switch s := args[1].(type) {
		case Slice:
			if d.Seq != nil || s.Seq != nil {
				panic(abort("copy with opaque byte sequence"))
			}
			n := len(d.A)
			if len(s.A) < n {
				n = len(s.A)
			}
			tmp := make([]Value, n)
			for i := 0; i < n; i++ {
				tmp[i] = copyVal(s.A[i])
			}
			for i := 0; i < n; i++ {
				in.onStore(&d.A[i])
				d.A[i] = tmp[i]
			}
			return mkBV(64, uint64(n))
		case Term:
			vec := strToVec(s)
			n := len(d.A)
			if len(vec) < n {
				n = len(vec)
			}
			for i := 0; i < n; i++ {
				d.A[i] = vec[i]
			}
			return mkBV(64, uint64(n))
		}
	case "delete":
		in.mapDelete(args[0].(*MapObj), args[1])
		return nil
	case "clear":
		switch a := args[0].(type) {
		case *MapObj:
			if a != nil {
				in.onMapWrite(a)
				a.Slots = nil
			}
			return nil
		case Slice:
			if a.Seq != nil {
				panic(abort("clear of opaque byte sequence"))
			}
			et := c.Args[0].Type().Underlying().(*types.Slice).Elem()
			for i := range a.A {
				in.onStore(&a.A[i])
				a.A[i] = in.zero(et)
			}
			return nil
		}
	case "panic":
		panic(goPanic{val: args[0], msg: in.panicString(args[0])})
	case "recover":
		// recover is effective only when called directly by a deferred function
		callerFr := fr.caller
		if callerFr != nil && callerFr.panicking {
			callerFr.panicking = false
			gp := callerFr.panicVal.(goPanic)
			if gp.val != nil {
				return gp.val
			}
			if strings.HasPrefix(gp.msg, "runtime error") || strings.HasPrefix(gp.msg, "interface conversion") ||
				gp.msg == "close of closed channel" || gp.msg == "send on closed channel" || strings.HasPrefix(gp.msg, "assignment to entry in nil map") {
				// run-time panics carry a runtime.Error: an error value whose text is the message
				return in.makeErrorString(mkStr(gp.msg))
			}
			return Iface{T: types.Typ[types.String], V: mkStr(gp.msg)}
		}
		return Iface{}
	case "print", "println":
		return nil
	case "close":
		ch := args[0].(*ChanObj)
		if ch.Closed {
			panic(goPanic{msg: "close of closed channel"})
		}
		ch.Closed = true
		in.trace = append(in.trace, fmt.Sprintf("close chan#%d", ch.ID))
		return nil
	case "min", "max":
		r := args[0].(Term)
		signed := isSigned(c.Args[0].Type())
		for _, a := range args[1:] {
			t := a.(Term)
			var c Term
			if b.Name() == "min" {
				c = bvCmp("<", t, r, signed)
			} else {
				c = bvCmp(">", t, r, signed)
			}
			r = tIte(c, t, r)
		}
		return r
	case "ssa:wrapnilchk":
		if p, ok := args[0].(*Value); ok && p == nil {
			panic(goPanic{msg: "nil receiver in wrapper"})
		}
		return args[0]
	}
	panic(abort(fmt.Sprintf("builtin %s on %T", b.Name(), args[0])))
}

// ---------- ghost checks on memory ----------

func (in *Interp) onLoad(p *Value) {
	in.raceNote(p, false)
	if in.guardsOff {
		return
	}
	if mu, ok := in.guard[p]; ok {
		if !in.heldLocks[mu] {
			in.ghostViolation("lockset", "load of a guarded cell without holding its mutex")
		}
	}
}

func (in *Interp) onStore(p *Value) {
	in.raceNote(p, true)
	if in.guardsOff {
		if why, ok := in.frozen[p]; ok {
			in.ghostViolation("frozen", "store into frozen memory: "+why)
		}
		return
	}
	if mu, ok := in.guard[p]; ok {
		if !in.heldLocks[mu] {
			in.ghostViolation("lockset", "store to a guarded cell without holding its mutex")
		}
	}
	if why, ok := in.frozen[p]; ok {
		in.ghostViolation("frozen", "store into frozen memory: "+why)
	}
}

func (in *Interp) onMapRead(m *MapObj) {
	in.raceNote(m, false)
	m.ReadCnt++
	if m.Guard != nil && !in.guardsOff && !in.heldLocks[m.Guard] {
		in.ghostViolation("lockset", "read of a guarded map without holding its mutex")
	}
}

func (in *Interp) onMapWrite(m *MapObj) {
	in.raceNote(m, true)
	m.WriteCnt++
	if m.Guard != nil && !in.guardsOff && !in.heldLocks[m.Guard] {
		in.ghostViolation("lockset", "write to a guarded map without holding its mutex")
	}
}

// ghostViolation reports an engine-detected property violation on the current path.
func (in *Interp) ghostViolation(label, msg string) {
	in.reportViolation(label, mkBool(true), msg)
	panic(pathEnd{"violation"})
}

func (in *Interp) where() string {
	fr := in.cur
	var parts []string
	for i := 0; fr != nil && i < 6; i++ {
		parts = append(parts, fr.fn.String())
		fr = fr.caller
	}
	return strings.Join(parts, " <- ")
}

func toInt(t Term, signed bool) Term {
	if t.S == SInt {
		return t
	}
	return bvToInt(t, signed)
}

// symLoad reads elems[idx] for a symbolic idx: bounds check (fork), then an ite chain.
func (in *Interp) symLoad(se *symElem) Value {
	n := len(se.elems)
	if se.idx.W >= 63 || uint64(n) < uint64(1)<<uint(se.idx.W) {
		inr := bvCmp("<", se.idx, mkBV(se.idx.W, uint64(n)), false)
		if !in.branch(inr) {
			panic(goPanic{msg: "runtime error: index out of range"})
		}
	}
	if n == 0 {
		panic(goPanic{msg: "runtime error: index out of range"})
	}
	// group equal consecutive values to keep the chain short
	idx := in.nameTerm(se.idx)
	r := copyVal(se.elems[n-1])
	for i := n - 2; i >= 0; i-- {
		r = in.iteValue(tEq(idx, mkBV(idx.W, uint64(i))), copyVal(se.elems[i]), r)
	}
	if t, ok := r.(Term); ok {
		return in.nameTerm(t)
	}
	return r
}

// nameTerm gives a large term a name in the solver (define-fun), so that later uses stay small.
func (in *Interp) nameTerm(t Term) Term {
	if t.C || t.IsV || len(t.E) < 200 {
		return t
	}
	name := quoteSym(in.freshName("t"))
	in.sess.Cmd("(define-fun " + name + " () " + t.sortName() + " " + t.E + ")")
	nt := t
	nt.E = name
	nt.Cat = nil
	return nt
}

func (in *Interp) iteValue(c Term, a, b Value) Value {
	switch x := a.(type) {
	case Term:
		return tIte(c, x, b.(Term))
	case Struct:
		y := b.(Struct)
		out := make(Struct, len(x))
		for i := range x {
			out[i] = in.iteValue(c, x[i], y[i])
		}
		return out
	case Array:
		y := b.(Array)
		out := make(Array, len(x))
		for i := range x {
			out[i] = in.iteValue(c, x[i], y[i])
		}
		return out
	}
	panic(abort(fmt.Sprintf("symbolic index into elements of type %T", a)))
}

// strLess: Go's < on strings. Concrete operands use the real order. For symbolic operands the solver's str.< is far
// too slow in z3, and nothing in this repository depends on the lexicographic order beyond its being a strict total
// order (sorting, sorted output), so it is modelled as an uninterpreted strict total order |strlt|, axiomatised over
// the terms compared on this path and agreeing with the real order on concrete strings.
func (in *Interp) strLess(a, b Term) Term {
	if in.spec == nil {
		if ab, ok := strConcreteBytes(a); ok {
			if bb, ok := strConcreteBytes(b); ok {
				return mkBool(string(ab) < string(bb))
			}
		}
	}
	if len(in.ordTerms) == 0 {
		in.sess.Cmd("(declare-fun strlt (String String) Bool)")
	}
	// every compared string is registered, concrete ones too: a sort relies on transitivity through them
	in.ordAdd(a)
	in.ordAdd(b)
	if ab, ok := strConcreteBytes(a); ok {
		if bb, ok := strConcreteBytes(b); ok {
			return mkBool(string(ab) < string(bb))
		}
	}
	return symBool("(strlt " + a.smt() + " " + b.smt() + ")")
}

func (in *Interp) ordAdd(t Term) {
	ts := t.smt()
	for _, u := range in.ordTerms {
		if u.smt() == ts {
			return
		}
	}
	if len(in.ordTerms) >= 14 {
		panic(abort("string ordering model: more than 14 distinct strings compared on one path"))
	}
	lt := func(x, y string) string { return "(strlt " + x + " " + y + ")" }
	in.sess.Cmd("(assert (not " + lt(ts, ts) + "))")
	for _, u := range in.ordTerms {
		us := u.smt()
		// trichotomy
		in.sess.Cmd(fmt.Sprintf("(assert (and (or (= %s %s) %s %s) (not (and %s %s)) (=> (= %s %s) (and (not %s) (not %s)))))",
			ts, us, lt(ts, us), lt(us, ts), lt(ts, us), lt(us, ts), ts, us, lt(ts, us), lt(us, ts)))
		if tb, ok := strConcreteBytes(t); ok {
			if ub, ok := strConcreteBytes(u); ok {
				if string(tb) < string(ub) {
					in.sess.Cmd("(assert " + lt(ts, us) + ")")
				} else if string(ub) < string(tb) {
					in.sess.Cmd("(assert " + lt(us, ts) + ")")
				}
			}
		}
	}
	// transitivity over all triples that involve the new term
	all := append(append([]Term{}, in.ordTerms...), t)
	n := len(all)
	for i := 0; i < n; i++ {
		for j := 0; j < n; j++ {
			for k := 0; k < n; k++ {
				if i == j || j == k || i == k || (i != n-1 && j != n-1 && k != n-1) {
					continue
				}
				x, y, z := all[i].smt(), all[j].smt(), all[k].smt()
				in.sess.Cmd("(assert (=> (and " + lt(x, y) + " " + lt(y, z) + ") " + lt(x, z) + "))")
			}
		}
	}
	in.ordTerms = all
}
