#!/usr/bin/env python3
"""Regenerates /verif/MANIFEST.json from the engine's registry (bin/gosym list) and the texts below."""
import json, subprocess, sys

TEXT = {
 "C01": ("Bounded symbolic execution of the nine real db.DB methods from an arbitrary valid database state with ALLOW(action,name) as an uninterpreted predicate: every path's assertions (no effect/disclosure without the grant, denial without touching the secrets map, list exactness) are SMT queries that must be unsat.",
         "Rule evaluation itself is C07's; HTTP 403 mapping is C08's. State bound 2x2 (quick) / 3x3 (thorough) secrets x versions, names and values unbounded SMT strings."),
 "C02": ("One inductive step of each kv operation (through the db.DB methods) from an arbitrary state satisfying the representation invariant, checked against the map-model post-conditions and the frame condition; invariant re-established. Covers histories of any length whose states stay inside the size bound.",
         "Counters < 2^32-1; states of 2x3 / 3x4 secrets x versions; JSON/AEAD/file write are contract stubs."),
 "C03": ("Save the symbolic pre-state, run one operation with save faults, then run the real openOrCreateKV on the resulting file model: loaded state must equal the acknowledged state; plus a document built from the documented v1 layout and contexts (pinned in the harness) must open with identical contents.",
         "encoding/json and tink are contract models (key matching from go/types, AEAD as Dolev-Yao blobs); opening actual files of the pinned release is not decided."),
 "C04": ("Real tailscale.com/atomicfile.WriteFile interpreted over a file-system model in which every call may fail or the process may be killed before it; kv-level operations with a failing save must leave memory, generation and file unchanged and succeed on retry.",
         "Rename atomic and ordered after fsync; directory fsync outside; kill points are FS-call boundaries."),
 "C05": ("Structural confidentiality of every document handed to the file system (no symbolic name/value outside an AEAD node; wrapper keys pinned), owner-only modes, tamper classes rejected by the real open path under the AEAD contract, KEK use count.",
         "AEAD is authenticated encryption by contract; bit-level corruption is represented by 'arbitrary bytes' and splicing classes, not by flipping real ciphertext bits."),
 "C06": ("For every DB method, with a sink whose every Write/Sync may fail: the audit record is written and synced (with the right fields) before any memory effect, save or disclosure; fail-closed; unchanged polls silent; WriteEntries error propagation.",
         "Non-interleaving of concurrent records rests on O_APPEND + one write(2) per Encode and is outside; only the open flags are checked (C05)."),
 "C09": ("DB.GetConditional from an arbitrary valid state and any V: not-changed iff active == V, else the active number with its bytes; absent -> not found.", "The handler's dispatch on Version/UpdateIfChanged is in C08's get harness; the network client (request shape, V=0 short-circuit, status mapping for every status code) and the file-backed client have their own harnesses here. The HTTP transport is a stub; a real round trip is outside."),
 "C07": ("acl.Secret.Match executed symbolically with symbolic pattern pieces and name; the regexp source it builds is parsed by the real regexp/syntax and the AST translated to an SMT regular expression; equivalence with the statement's glob semantics is one SMT query per star count. Rules.Allow/Rule.Allow against the exists-rule specification with Match uninterpreted.",
         "QuoteMeta's contract (its result matches exactly its argument) and the regexp matcher's conformance to its AST are assumed; code-point strings (valid UTF-8), pieces <= 3, names <= 8/12 code points, <= 2/3 stars."),
 "C08": ("The seven registered handlers (serveJSON instances, getIdentity) executed symbolically over a request/identity/database-outcome model: gates, identification before decoding, dispatch, outcome->status table, permissions and principal, no body in non-200 replies.",
         "net/http, WhoIs, capability decoding and the database methods are nondeterministic stubs; real JSON syntax is the decoder's contract."),
 "C10": ("NewStore executed symbolically with declared names (duplicates, empty), every kind of cache content, a failing/recovering service and an ending context: values for all declared names with provenance, no refetch, capped doubling back-off, prompt error after the context ends, file-client and misconfiguration cases.",
         "2 (quick) / 3 names; at most 2/3 failing requests; real timers replaced by a recorded sleep list."),
 "C11": ("One Refresh (poll + applyUpdates + flush) from an arbitrary store state against an arbitrary service state with per-request faults: convergence by version number, failed poll applies nothing, single-flight under a constant key, cache holds the post-state.",
         "2/3 names; the +-10% jitter arithmetic is decided for 5 ns <= interval < 2^62 ns (cvc5 integer encoding); real tickers are outside; interleavings within one poll are represented by the arbitrary service state and a caller that may give up between two requests."),
 "C12": ("Invariant J and lock-set obligations over applyUpdates (arbitrary update set), handle reads, lookups and polls: handles never lose their name, values replaced never mutated, no request under the lock, lock released on every path.",
         "Sequential + lock-discipline formulation; interleavings and the race detector are outside (single-mutex reduction is trusted reasoning)."),
 "C13": ("Flush sites (initial fetch, poll, lookup, shutdown) hand Cache.Write the whole active set; restart from any cache document; arbitrary/unreadable cache never fatal; FileCache.Write = real atomicfile over the FS model with faults and kills; NewFileClient reads the same document with identical results.",
         "encoding/json is a contract model; byte-level fuzzing of the decoder is outside."),
 "C15": ("NewUpdater and bounded histories (4/6 events) of installs and Gets with failing builders and closers: newest bytes, rebuild only after an install, failure keeps the old value and sets Err, replaced value closed exactly once, current never closed; notify is a non-blocking level trigger.",
         "Sequential histories; concurrent Get callers rest on Updater.mu (lock released asserted)."),
 "C16": ("LookupSecret/Secret from an arbitrary store state (gate, single flight per name, install exactly the served value, no retry, cache flush) and a ghost-clock harness with a hanging service: leader bounded by its deadline or the 5-minute fallback, leads at most once, follower of a cancelled leader retries and is bounded.",
         "singleflight is a leader/follower model with one earlier flight; more than one follower generation is outside."),
 "C17": ("periodicBackup/doBackup executed symbolically over a ghost clock, a generation counter with writes at any point (also racing an upload), failing reads/uploads and cancellation at any wait: whole-file uploads, change-driven, at most one per minute, blocking wait between generation reads, retry after failure, termination on cancellation.",
         "S3, the file read and timers are stubs; 2/4 loop rounds with an unwinding assertion; that an uploaded file is a complete database file follows from C04."),
 "C18": ("byteString's text marshalers executed through the real encoding/base64 SSA on symbolic byte vectors (round trip for every vector up to the bound); copy-in/copy-out at the DB boundary as heap facts; the CLI's checkPutText and runPut (file and pipe) against the statement's policy table with the real utf8.Valid/bytes.TrimSpace/unicode.IsSpace interpreted on symbolic bytes.",
         "Vectors of 0..9/16 bytes (base64), 0..3/4 (CLI text policy); every other hop (JSON/base64 inside api.SecretValue, cache, file client) is the JSON contract; megabyte values, flag parsing and the terminal prompt are outside."),
 "C19": ("hasExpired against the statement over all stamps/ages (ghost clock in mathematical integers), expiry only at a poll and only for stale, unreferenced, undeclared names, handle reads stamp last access, stamps persisted with the cache document.",
         "time.Time arithmetic is a contract stub."),
 "C20": ("Fields.Apply/Secrets and fieldInfo.apply on a hand-built field list ([]byte, string, Secret, custom unmarshaler): naming, per-type assignment, private copy for []byte, error isolation, untagged field untouched.",
         "PARTIAL: tag parsing, type validation and run-time generated struct shapes (parseFields/checkUnmarshal over the reflect runtime) are outside the technique; reflect is a 7-operation model."),
 "C14": ("Lock-set obligations on the real code: every access to kv state under db.mu, exactly one critical section per method, released on every path (incl. injected failures), save under the lock; linearizability then follows from the single-lock reduction plus C02's sequential step.",
         "Trusted reasoning: single mutex + one critical section => atomic. The Go race detector and memory model are outside."),
}

def main():
    out = subprocess.run(["/verif/bin/gosym", "list"], capture_output=True, text=True).stdout
    have = [l.split()[0] for l in out.splitlines() if l.strip()]
    props = [json.loads(l) for l in open('/verif/properties.jsonl')]
    na_reason = json.load(open('/verif/not_applicable.json')) if __import__('os').path.exists('/verif/not_applicable.json') else {}
    checks, na = [], []
    for p in props:
        pid = p["id"]
        if pid in have and pid not in na_reason:
            lt, ln = TEXT.get(pid, ("bounded symbolic execution of the real code, assertions decided by SMT", "see evidence"))
            checks.append({
                "property_id": pid,
                "quick_cmd": f"./check {pid} --tier quick",
                "thorough_cmd": f"./check {pid} --tier thorough",
                "evidence_file": f"/verif/evidence/{pid}.json",
                "replay_cmd_template": "./bin/gosym replay {path}",
                "engine": "gosym",
                "level_claimed": {"category": "model_checking", "text": lt, "design_ref": f"DESIGN.md §7 {pid}"},
                "level_note": ln + " Bounds, stubs, functions encoded, queries and solver time are in the evidence file.",
                "technique": "bounded symbolic execution of go/ssa of the real code, SMT (z3 5.1; z3 4.8.12/cvc5 cross-check); counterexamples replayed natively",
            })
        else:
            na.append({"property_id": pid, "reason": na_reason.get(pid, "check not built yet in this session (work in progress; see DESIGN.md §7)")})
    m = {"version": 1,
         "setup_cmd": "cd /verif/engine && GOFLAGS=-mod=mod GOPROXY=off go build -o /verif/bin/gosym .",
         "hooks": {"guard": "verif", "enable": "no hooks in /repo: harnesses are in-package overlay files (go/packages Overlay for the engine, go test -overlay for native replay); nothing is compiled into tailscale/setec",
                   "baseline_off_cmd": "cd /repo && GOFLAGS=-mod=mod GOPROXY=off go test -vet=off -count=1 ./...", "source_commits": [], "add_only": True},
         "engines": [{"name": "gosym", "path": "/verif/engine", "serves_properties": [c["property_id"] for c in checks],
                      "kind_free_text": "own go/ssa symbolic executor -> SMT-LIB2 (z3 5.1 primary, z3 4.8.12 / cvc5 cross-check), bounded, decision-trace re-execution, native replay of counterexamples via go test -overlay"}],
         "checks": checks, "not_applicable": na,
         "notes": "Exit codes of ./check: 0 held, 1 VIOLATION (printed), 2 inconclusive (unmodelled construct, unknown, unwinding failure, failed reachability witness). known_findings.json lists genuine defects (fixed/known)."}
    json.dump(m, open('/verif/MANIFEST.json', 'w'), indent=1)
    print("checks:", [c["property_id"] for c in checks])

main()
