package server

import (
	"bytes"
	"context"
	"errors"
	"fmt"
	"net/http"
	"net/netip"
	"net/url"
	"time"

	"github.com/aws/aws-sdk-go-v2/service/s3"
	"github.com/tailscale/setec/acl"
	"github.com/tailscale/setec/db"
	"github.com/tailscale/setec/types/api"
	"tailscale.com/client/tailscale/apitype"
	"tailscale.com/tailcfg"
	"tailscale.com/util/multierr"
)

var verifErrInjected = errors.New("verif: injected failure")

// ---------- request / response models ----------

type verifBody struct{ doc []byte }

func (b *verifBody) Read(p []byte) (int, error) {
	return 0, errors.New("verif: body is decoded by the JSON model")
}
func (b *verifBody) Close() error     { return nil }
func (b *verifBody) VerifDoc() []byte { return b.doc }

type verifRecorder struct {
	header      http.Header
	status      int
	wroteHeader int
	body        [][]byte
	errorMsg    string
	errorCalls  int
}

func (r *verifRecorder) Header() http.Header { return r.header }
func (r *verifRecorder) WriteHeader(code int) {
	r.status = code
	r.wroteHeader++
}
func (r *verifRecorder) Write(p []byte) (int, error) {
	if r.wroteHeader == 0 {
		r.WriteHeader(200)
	}
	r.body = append(r.body, p)
	return len(p), nil
}

// request headers as a symbolic function of the (canonical) key
var verifReqHeaders map[string]string
var verifRespHeaders map[string]string

func verifStubHeaderGet(h http.Header, key string) string {
	ghostLog("header.get")
	if v, ok := verifReqHeaders[key]; ok {
		return v
	}
	// any other header is under the client's control as well
	v := nondetString("hdr.other")
	verifReqHeaders[key] = v
	return v
}

func verifStubHeaderSet(h http.Header, key, value string) {
	verifRespHeaders[key] = value
}

func verifStubHTTPError(w http.ResponseWriter, msg string, code int) {
	r := w.(*verifRecorder)
	r.errorMsg = msg
	r.errorCalls++
	r.WriteHeader(code)
}

func verifStubReqContext(r *http.Request) context.Context { return context.TODO() }

var verifAddrFails bool

func verifStubParseAddrPort(s string) (netip.AddrPort, error) {
	ghostLog("parseaddr")
	if verifAddrFails {
		return netip.AddrPort{}, verifErrInjected
	}
	return netip.AddrPort{}, nil
}

func verifStubAddrOf(ap netip.AddrPort) netip.Addr { return netip.Addr{} }

// further net/netip operations a handler might use on the source address: arbitrary answers
func verifStubAddrIsLoopback(a netip.Addr) bool { return nondetBool("addr.isloopback") }
func verifStubAddrIsPrivate(a netip.Addr) bool  { return nondetBool("addr.isprivate") }
func verifStubParseAddr(s string) (netip.Addr, error) {
	if nondetBool("parseaddr.fails") {
		return netip.Addr{}, verifErrInjected
	}
	return netip.Addr{}, nil
}
func verifStubAddrPortFrom(a netip.Addr, port uint16) netip.AddrPort { return netip.AddrPort{} }
func verifStubAddrPortPort(ap netip.AddrPort) uint16                 { return 0 }
func verifStubAddrPortString(ap netip.AddrPort) string               { return nondetString("addrport.string") }
func verifStubAddrString(a netip.Addr) string                        { return nondetString("addr.string") }

// capability grants in the tailnet's answer, per capability name
var verifCaps struct {
	plain, https       []acl.Rule
	plainErr, httpsErr bool
	asked              []tailcfg.PeerCapability
}

func verifStubUnmarshalCap(cm tailcfg.PeerCapMap, name tailcfg.PeerCapability) ([]acl.Rule, error) {
	verifCaps.asked = append(verifCaps.asked, name)
	switch name {
	case ACLCap:
		if verifCaps.plainErr {
			return nil, verifErrInjected
		}
		return verifCaps.plain, nil
	case aclCapHTTP:
		if verifCaps.httpsErr {
			return nil, verifErrInjected
		}
		return verifCaps.https, nil
	}
	return nil, nil
}

// ---------- database model: every method havocs and records ----------

type verifDBCall struct {
	method  string
	caller  db.Caller
	name    string
	version api.SecretVersion
	value   []byte
}

var verifDBCalls []verifDBCall
var verifDBOutcome int // concrete per path: 0 nil, 1 access denied, 2 access denied inside multierr, 3 not found (wrapped), 4 not changed, 5 other
var verifDBValue *api.SecretValue
var verifDBValueFor map[string]*api.SecretValue // per-name answers (several requests in one harness)
var verifDBInfo *api.SecretInfo
var verifDBVersion api.SecretVersion

func verifDBErr() error {
	switch verifDBOutcome {
	case 1:
		return db.ErrAccessDenied
	case 2:
		return multierr.New(db.ErrAccessDenied, fmt.Errorf("writing audit log: %w", verifErrInjected))
	case 3:
		return fmt.Errorf("version %v: %w", 3, db.ErrNotFound)
	case 4:
		return api.ErrValueNotChanged
	case 5:
		return verifErrInjected
	}
	return nil
}

func verifRecord(m string, c db.Caller, name string, v api.SecretVersion, val []byte) {
	verifDBCalls = append(verifDBCalls, verifDBCall{m, c, name, v, val})
	ghostLog("db.call")
}

func verifDBList(d *db.DB, c db.Caller) ([]*api.SecretInfo, error) {
	verifRecord("List", c, "", 0, nil)
	if err := verifDBErr(); err != nil {
		return nil, err
	}
	return []*api.SecretInfo{verifDBInfo}, nil
}
func verifDBInfoM(d *db.DB, c db.Caller, name string) (*api.SecretInfo, error) {
	verifRecord("Info", c, name, 0, nil)
	if err := verifDBErr(); err != nil {
		return nil, err
	}
	return verifDBInfo, nil
}
func verifDBGet(d *db.DB, c db.Caller, name string) (*api.SecretValue, error) {
	verifRecord("Get", c, name, 0, nil)
	if err := verifDBErr(); err != nil {
		return nil, err
	}
	if v, ok := verifDBValueFor[name]; ok {
		return v, nil
	}
	return verifDBValue, nil
}
func verifDBGetConditional(d *db.DB, c db.Caller, name string, v api.SecretVersion) (*api.SecretValue, error) {
	verifRecord("GetConditional", c, name, v, nil)
	if err := verifDBErr(); err != nil {
		return nil, err
	}
	return verifDBValue, nil
}
func verifDBGetVersion(d *db.DB, c db.Caller, name string, v api.SecretVersion) (*api.SecretValue, error) {
	verifRecord("GetVersion", c, name, v, nil)
	if err := verifDBErr(); err != nil {
		return nil, err
	}
	return verifDBValue, nil
}
func verifDBPut(d *db.DB, c db.Caller, name string, val []byte) (api.SecretVersion, error) {
	verifRecord("Put", c, name, 0, val)
	if err := verifDBErr(); err != nil {
		return 0, err
	}
	return verifDBVersion, nil
}
func verifDBActivate(d *db.DB, c db.Caller, name string, v api.SecretVersion) error {
	verifRecord("Activate", c, name, v, nil)
	return verifDBErr()
}
func verifDBDeleteVersion(d *db.DB, c db.Caller, name string, v api.SecretVersion) error {
	verifRecord("DeleteVersion", c, name, v, nil)
	return verifDBErr()
}
func verifDBDelete(d *db.DB, c db.Caller, name string) error {
	verifRecord("Delete", c, name, 0, nil)
	return verifDBErr()
}

// ---------- identity model ----------

var verifWho struct {
	fails  bool
	tags   []string
	login  string
	node   string
	called int
	addr   string
}

func verifWhoIs(ctx context.Context, addr string) (*apitype.WhoIsResponse, error) {
	verifWho.called++
	verifWho.addr = addr
	if verifWho.fails {
		return nil, verifErrInjected
	}
	return &apitype.WhoIsResponse{
		Node:        &tailcfg.Node{Name: verifWho.node, Tags: verifWho.tags},
		UserProfile: &tailcfg.UserProfile{LoginName: verifWho.login},
	}, nil
}

func verifNewRequest(path string, doc []byte) *http.Request {
	verifReqHeaders = map[string]string{
		"Content-Type":                nondetString("hdr.content-type"),
		"Sec-X-Tailscale-No-Browsers": nondetString("hdr.no-browsers"),
	}
	verifRespHeaders = map[string]string{}
	return &http.Request{
		Method:     nondetString("method"),
		URL:        &url.URL{Path: path},
		RemoteAddr: nondetString("remote"),
		Body:       &verifBody{doc: doc},
	}
}

func verifServer() *Server {
	return &Server{db: new(db.DB), whois: verifWhoIs}
}

func verifSymIdentity() {
	verifAddrFails = nondetBool("addr.fails")
	verifWho.fails = nondetBool("whois.fails")
	verifWho.called = 0
	verifWho.tags = nil
	switch nondetChoice("ntags", 3) {
	case 1:
		verifWho.tags = []string{nondetString("tag")}
	case 2:
		verifWho.tags = []string{nondetString("tag"), nondetString("tag")}
	}
	verifWho.login = nondetString("login")
	verifWho.node = nondetString("node")
	verifCaps.asked = nil
	verifCaps.plainErr, verifCaps.httpsErr = nondetBool("cap.plain.err"), nondetBool("cap.https.err")
	verifCaps.plain, verifCaps.https = nil, nil
	if nondetBool("cap.plain.some") {
		verifCaps.plain = []acl.Rule{{Action: []acl.Action{acl.Action(nondetString("cap.plain.action"))}, Secret: []acl.Secret{acl.Secret(nondetString("cap.plain.pat"))}}}
	}
	if nondetBool("cap.https.some") {
		verifCaps.https = []acl.Rule{{Action: []acl.Action{acl.Action(nondetString("cap.https.action"))}, Secret: []acl.Secret{acl.Secret(nondetString("cap.https.pat"))}}}
	}
}

// ---------- backup environment ----------

var verifBackup struct {
	gens        []uint64
	genCalls    int
	curGen      uint64
	uploads     [][]byte
	uploadGen   []uint64
	files       [][]byte
	waits       int
	readers     map[*bytes.Reader][]byte
	cancelAt    int
	mustUpload  bool
	attempts    int
	lastGoodGen uint64
	readGen     uint64
	raceRead    int // 0: never; k: a write lands just before the k-th file read
	reads       int
}

func verifStubWriteGen(d *db.DB) uint64 {
	assert("task-ends-when-context-is-cancelled", !verifBackupCancelNow)
	// between two reads of the generation the task must have blocked in its wait (no spinning, no lock hammering)
	assert("backup-task-blocks-between-generation-reads", verifBackup.waits >= verifBackup.genCalls)
	if verifBackup.genCalls > 0 {
		// a change not yet backed up (new write, write racing the last upload, failed upload) must trigger an attempt
		assert("pending-change-triggers-upload-attempt", implies(verifBackup.mustUpload, verifBackup.attempts > 0))
	}
	verifBackup.genCalls++
	// writes may have happened meanwhile
	if nondetBool("db.written") {
		verifBackup.curGen++
	}
	verifBackup.mustUpload = verifBackup.curGen != verifBackup.lastGoodGen
	verifBackup.attempts = 0
	ghostLog("backup.gen.read")
	return verifBackup.curGen
}

func verifStubDBPath(d *db.DB) string { return "/state/setec.db" }

func verifStubReadFileBackup(name string) ([]byte, error) {
	verifBackup.attempts++
	assert("no-upload-without-a-change-since-the-last-good-backup", verifBackup.mustUpload)
	verifBackup.reads++
	if verifBackup.reads == verifBackup.raceRead {
		verifBackup.curGen++ // the write is in the file this read returns, but not in the generation the loop sampled
		ghostLog("db.written.between.generation.read.and.file.read")
	}
	verifBackup.readGen = verifBackup.curGen
	if nondetBool("readfile.fail") {
		return nil, verifErrInjected
	}
	f := nondetSeq("dbfile")
	verifBackup.files = append(verifBackup.files, f)
	return f, nil
}

func verifStubBytesNewReader(b []byte) *bytes.Reader {
	r := new(bytes.Reader)
	verifBackup.readers[r] = b
	return r
}

func verifStubPutObject(c *s3.Client, ctx context.Context, in *s3.PutObjectInput, opts ...func(*s3.Options)) (*s3.PutObjectOutput, error) {
	ghostLog("s3.put.call")
	verifBackupAttemptTimes = append(verifBackupAttemptTimes, verifBackupClock)
	// an upload takes time: anything up to doBackup's five-minute limit
	dur := nondetMathI64("upload.seconds")
	assume(and(dur >= 0, dur <= 300))
	verifBackupClock += dur
	if nondetBool("db.written.during.upload") {
		verifBackup.curGen++ // a write racing the upload
	}
	if nondetBool("s3.fail") {
		return nil, verifErrInjected
	}
	verifBackup.lastGoodGen = verifBackup.readGen
	rd, _ := in.Body.(*bytes.Reader)
	verifBackup.uploads = append(verifBackup.uploads, verifBackup.readers[rd])
	verifBackup.uploadGen = append(verifBackup.uploadGen, verifBackup.curGen)
	verifBackupUploadTimes = append(verifBackupUploadTimes, verifBackupAttemptTimes[len(verifBackupAttemptTimes)-1])
	assert("bucket-and-key-set", and(in.Bucket != nil, in.Key != nil))
	ghostLog("s3.put")
	return &s3.PutObjectOutput{}, nil
}

var verifBackupClock int64 // ghost seconds
var verifBackupUploadTimes []int64
var verifBackupAttemptTimes []int64

// time.NewTicker: ticks on a fixed grid; one tick stays pending while the receiver is busy.
var verifTickerNext, verifTickerPeriod int64

func verifStubNewTicker(d time.Duration) *time.Ticker {
	verifTickerPeriod = int64(d / time.Second)
	verifTickerNext = verifBackupClock + verifTickerPeriod
	t := &time.Ticker{}
	t.C = envChanDyn[time.Time]("ticker", func() bool { return !verifCancelDecision() }, func() {
		verifBackup.waits++
		ghostLog("backup.wait")
		if verifBackupClock < verifTickerNext {
			verifBackupClock = verifTickerNext // sleep until the next grid point
			verifTickerNext += verifTickerPeriod
		} else {
			// a tick was already pending: consumed at once; the following one is the next grid point after now
			k := (verifBackupClock-verifTickerNext)/verifTickerPeriod + 1
			verifTickerNext += k * verifTickerPeriod
		}
	})
	return t
}

func verifStubTickerStop(t *time.Ticker) {}

func verifStubBackupKey() string { return "2026/9/27/db.json" }

type verifBackupCtx struct{ done bool }

func (c *verifBackupCtx) Deadline() (time.Time, bool) { return time.Time{}, false }
func (c *verifBackupCtx) Done() <-chan struct{} {
	if verifCancelDecision() {
		c.done = true
	}
	return envChan[struct{}]("ctx.done", c.done)
}

// Cancellation may arrive during any wait; the server is eventually shut down. One decision per wait, shared by
// whichever of the timer channel and ctx.Done() is looked at first, so that exactly one case of the select is ready.
var verifBackupCancelNow bool
var verifDecidedAtWait int

func verifCancelDecision() bool {
	if verifBackupCancelNow {
		return true
	}
	if verifDecidedAtWait != verifBackup.waits {
		verifDecidedAtWait = verifBackup.waits
		if verifBackup.waits > param("rounds") {
			verifBackupCancelNow = true
		} else {
			verifBackupCancelNow = nondetBool("ctx.cancelled")
		}
	}
	return verifBackupCancelNow
}

func (c *verifBackupCtx) Err() error {
	if c.done {
		return context.Canceled
	}
	return nil
}
func (c *verifBackupCtx) Value(any) any { return nil }

// context.WithoutCancel: a context that never ends, whatever happens to its parent
type verifDetachedCtx struct{}

func (verifDetachedCtx) Deadline() (time.Time, bool) { return time.Time{}, false }
func (verifDetachedCtx) Done() <-chan struct{}       { return nil }
func (verifDetachedCtx) Err() error                  { return nil }
func (verifDetachedCtx) Value(any) any               { return nil }

func verifStubWithoutCancel(parent context.Context) context.Context {
	ghostLog("ctx.withoutcancel")
	return verifDetachedCtx{}
}

func verifStubWithTimeout(parent context.Context, d time.Duration) (context.Context, context.CancelFunc) {
	return parent, func() {}
}

func verifStubTimeAfter(d time.Duration) <-chan time.Time {
	verifBackup.waits++
	verifBackupLastWait = d
	verifBackupClock += int64(d / time.Second)
	ghostLog("backup.wait")
	return envChan[time.Time]("time.after", !verifCancelDecision())
}

var verifBackupLastWait time.Duration

var verifBackupAfter []bool
