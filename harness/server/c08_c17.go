package server

import (
	"bytes"
	"context"
	"encoding/json"
	"net/http"
	"net/url"

	"github.com/tailscale/setec/acl"
	"github.com/tailscale/setec/audit"
	"github.com/tailscale/setec/db"
	"github.com/tailscale/setec/types/api"
)

const (
	epList = iota
	epGet
	epInfo
	epPut
	epActivate
	epDelete
	epDeleteVersion
)

// verifServe drives one registered handler with a symbolic request.
// doc: 0 = the proper request document for the endpoint, 1 = a document of another shape, 2 = arbitrary bytes
func verifC08Run(ep int) {
	verifDBCalls = nil
	s := verifServer()
	verifSymIdentity()
	name := nondetString("req.name")
	ver := api.SecretVersion(nondetU32("req.version"))
	flag := nondetBool("req.updateIfChanged")
	val := nondetSeq("req.value")
	var doc []byte
	bodyClass := 0
	docKind := nondetChoice("body.kind", 3)
	switch docKind {
	case 0:
		switch ep {
		case epList:
			doc, _ = json.Marshal(api.ListRequest{})
		case epGet:
			doc, _ = json.Marshal(api.GetRequest{Name: name, Version: ver, UpdateIfChanged: flag})
		case epInfo:
			doc, _ = json.Marshal(api.InfoRequest{Name: name})
		case epPut:
			doc, _ = json.Marshal(api.PutRequest{Name: name, Value: val})
		case epActivate:
			doc, _ = json.Marshal(api.ActivateRequest{Name: name, Version: ver})
		case epDelete:
			doc, _ = json.Marshal(api.DeleteRequest{Name: name})
		case epDeleteVersion:
			doc, _ = json.Marshal(api.DeleteVersionRequest{Name: name, Version: ver})
		}
	case 1:
		doc, _ = json.Marshal(struct{ Name int }{Name: 7}) // wrong type for a field
	case 2:
		doc = nondetSeq("body.garbage")
		bodyClass = jsonClass(doc) // 0 only if the body is exactly one JSON value: judged by the harness, not by the handler's decoder
	}
	paths := []string{"/api/list", "/api/get", "/api/info", "/api/put", "/api/activate", "/api/delete", "/api/delete-version"}
	r := verifNewRequest(paths[ep], doc)
	w := &verifRecorder{header: http.Header{}}
	verifDBOutcome = nondetChoice("db.outcome", 6)
	secretBytes := nondetSeq("db.secret.bytes")
	verifDBValue = &api.SecretValue{Value: secretBytes, Version: api.SecretVersion(nondetU32("db.secret.version"))}
	verifDBInfo = &api.SecretInfo{Name: nondetString("db.info.name"), ActiveVersion: 1, Versions: []api.SecretVersion{1}}
	verifDBVersion = api.SecretVersion(nondetU32("db.put.version"))

	switch ep {
	case epList:
		s.list(w, r)
	case epGet:
		s.get(w, r)
	case epInfo:
		s.info(w, r)
	case epPut:
		s.put(w, r)
	case epActivate:
		s.activate(w, r)
	case epDelete:
		s.deleteSecret(w, r)
	case epDeleteVersion:
		s.deleteVersion(w, r)
	}

	gateOK := and(r.Method == "POST", verifReqHeaders["Content-Type"] == "application/json", verifReqHeaders["Sec-X-Tailscale-No-Browsers"] == "setec")
	tagged := len(verifWho.tags) > 0
	identOK := and(!verifAddrFails, !verifWho.fails, or(tagged, verifWho.login != ""), !verifCaps.plainErr,
		or(len(verifCaps.plain) > 0, !verifCaps.httpsErr))
	assert("exactly-one-response", w.wroteHeader == 1)
	accepted := and(gateOK, identOK, docKind == 0)
	undecodable := ghostCount("json.decode.failed") > 0
	if len(verifDBCalls) > 0 {
		assert("store-reached-only-by-wellformed-identified-json-request", and(gateOK, identOK, !undecodable))
		assert("store-reached-only-by-a-body-that-is-exactly-one-json-document", bodyClass == 0)
	}
	if !and(gateOK, identOK) || undecodable {
		assert("rejected-request-never-reaches-store", len(verifDBCalls) == 0)
	}
	if accepted {
		assert("accepted-request-reaches-store", len(verifDBCalls) == 1)
	}
	if len(verifDBCalls) == 0 {
		assert("rejected-non-2xx", or(w.status < 200, w.status > 299))
		assert("rejected-fixed-message-only", and(len(w.body) == 0, w.errorCalls == 1))
		if !gateOK {
			assert("gate-failure-before-identification", verifWho.called == 0)
		}
		reach("end-rejected")
		return
	}
	assert("one-store-call-per-request", len(verifDBCalls) == 1)
	call := verifDBCalls[0]
	// identity and permissions
	if tagged {
		assert("principal-tags", and(deepEq(call.caller.Principal.Tags, verifWho.tags), call.caller.Principal.User == ""))
	} else {
		assert("principal-login", and(call.caller.Principal.User == verifWho.login, len(call.caller.Principal.Tags) == 0))
	}
	assert("principal-hostname", call.caller.Principal.Hostname == verifWho.node)
	assert("identity-for-source-address", verifWho.addr == r.RemoteAddr)
	if len(verifCaps.plain) > 0 {
		assert("permissions-from-secrets-capability", deepEq([]acl.Rule(call.caller.Permissions), verifCaps.plain))
	} else {
		assert("permissions-from-legacy-capability-name", deepEq([]acl.Rule(call.caller.Permissions), verifCaps.https))
	}
	// dispatch (request fields are known only for the proper document)
	epd := ep
	if docKind != 0 {
		epd = -1
	}
	switch epd {
	case epGet:
		want := "Get"
		if ver != 0 {
			want = "GetVersion"
			if flag {
				want = "GetConditional"
			}
		}
		assert("get-dispatch", call.method == want)
		assert("get-args", and(call.name == name, or(ver == 0, call.version == ver)))
	case epPut:
		assert("put-args", and(call.method == "Put", call.name == name, bytesEq(call.value, val)))
	case epActivate:
		assert("activate-args", and(call.method == "Activate", call.name == name, call.version == ver))
	case epDeleteVersion:
		assert("delete-version-args", and(call.method == "DeleteVersion", call.name == name, call.version == ver))
	case epDelete:
		assert("delete-args", and(call.method == "Delete", call.name == name))
	case epInfo:
		assert("info-args", and(call.method == "Info", call.name == name))
	case epList:
		assert("list-call", call.method == "List")
	}
	// outcome -> status table
	switch verifDBOutcome {
	case 0:
		assert("ok-200", w.status == 200)
		assert("ok-json-content-type", verifRespHeaders["Content-Type"] == "application/json")
		assert("ok-one-body", len(w.body) == 1)
		assert("ok-body-is-the-result", verifBodyMatches(ep, w.body[0]))
	case 1, 2:
		assert("denied-403", w.status == 403)
	case 3:
		assert("notfound-404", w.status == 404)
	case 4:
		assert("notchanged-304-empty", and(w.status == 304, len(w.body) == 0, w.errorCalls == 0))
	case 5:
		assert("other-failure-other-status", and(or(w.status < 200, w.status > 299), w.status != 304, w.status != 403, w.status != 404))
	}
	if verifDBOutcome != 0 {
		assert("no-secret-material-in-non-200", len(w.body) == 0)
	}
	reach("end-served")
}

type aclRule = acl.Rule

// ---------- C14 at the HTTP layer: handlers are stateless apart from the database ----------

// verifBusyRecorder: while this response is being written, another client's request is served to completion
// (concurrently: unless it would wait for a lock the first handler holds). The bytes reach the client when Write returns.
type verifBusyRecorder struct {
	verifRecorder
	during func()
}

func (r *verifBusyRecorder) Write(p []byte) (int, error) {
	if r.during != nil {
		f := r.during
		r.during = nil
		concurrently(f)
	}
	return r.verifRecorder.Write(append([]byte(nil), p...))
}

func verifPlainRequest(path string, doc []byte) *http.Request {
	return &http.Request{Method: "POST", URL: &url.URL{Path: path}, RemoteAddr: "100.64.0.1:1234", Body: &verifBody{doc: doc}}
}

func verifHarnessC14HandlersStateless() {
	verifDBCalls = nil
	s := verifServer()
	verifSymIdentity()
	verifAddrFails, verifWho.fails, verifWho.tags, verifWho.login = false, false, nil, "user@example.com"
	verifCaps.plainErr, verifCaps.httpsErr = false, false
	verifCaps.plain = []acl.Rule{{Action: []acl.Action{acl.ActionGet}, Secret: []acl.Secret{"*"}}}
	verifReqHeaders = map[string]string{"Content-Type": "application/json", "Sec-X-Tailscale-No-Browsers": "setec"}
	verifRespHeaders = map[string]string{}
	nameA, nameB := nondetString("nameA"), nondetString("nameB")
	assume(nameA != nameB)
	valA := &api.SecretValue{Value: nondetSeq("valA"), Version: api.SecretVersion(nondetU32("verA"))}
	valB := &api.SecretValue{Value: nondetSeq("valB"), Version: api.SecretVersion(nondetU32("verB"))}
	assume(valA.Version != valB.Version)
	verifDBOutcome = 0
	verifDBValueFor = map[string]*api.SecretValue{nameA: valA, nameB: valB}
	docA, _ := json.Marshal(api.GetRequest{Name: nameA})
	docB, _ := json.Marshal(api.GetRequest{Name: nameB})
	wA := &verifBusyRecorder{}
	wA.header = http.Header{}
	wB := &verifRecorder{header: http.Header{}}
	wA.during = func() { s.get(wB, verifPlainRequest("/api/get", docB)) }

	raceBegin()
	s.get(wA, verifPlainRequest("/api/get", docA))
	joinConcurrent()
	raceEnd() // handlers share no memory they write (apart from what the database guards)
	verifDBValueFor = nil

	assert("both-served", and(wA.status == 200, wB.status == 200, len(wA.body) == 1, len(wB.body) == 1))
	if len(wA.body) == 1 && len(wB.body) == 1 {
		var gotA, gotB api.SecretValue
		assert("first-client-receives-its-own-response", and(jsonBlobAs(wA.body[0], &gotA), gotA.Version == valA.Version, bytesEq(gotA.Value, valA.Value)))
		assert("second-client-receives-its-own-response", and(jsonBlobAs(wB.body[0], &gotB), gotB.Version == valB.Version, bytesEq(gotB.Value, valB.Value)))
	}
	reach("end")
}

func verifBodyMatches(ep int, body []byte) bool {
	switch ep {
	case epGet:
		var got api.SecretValue
		return and(jsonBlobAs(body, &got), got.Version == verifDBValue.Version, bytesEq(got.Value, verifDBValue.Value))
	case epInfo:
		var got api.SecretInfo
		return and(jsonBlobAs(body, &got), got.Name == verifDBInfo.Name)
	case epPut:
		var got api.SecretVersion
		return and(jsonBlobAs(body, &got), got == verifDBVersion)
	case epList:
		var got []*api.SecretInfo
		return and(jsonBlobAs(body, &got), len(got) == 1)
	}
	return true
}

func verifHarnessC08List()          { verifC08Run(epList) }
func verifHarnessC08Get()           { verifC08Run(epGet) }
func verifHarnessC08Info()          { verifC08Run(epInfo) }
func verifHarnessC08Put()           { verifC08Run(epPut) }
func verifHarnessC08Activate()      { verifC08Run(epActivate) }
func verifHarnessC08Delete()        { verifC08Run(epDelete) }
func verifHarnessC08DeleteVersion() { verifC08Run(epDeleteVersion) }

var _ = audit.Principal{}
var _ = db.Caller{}

// ---------- C17 ----------

func verifHarnessC17Backup() {
	s := &Server{db: new(db.DB), backupBucket: "bucket"}
	verifBackup.genCalls, verifBackup.waits = 0, 0
	verifBackup.curGen = 1
	verifBackup.mustUpload, verifBackup.attempts, verifBackup.lastGoodGen, verifBackup.readGen = false, 0, 0, 0
	verifBackup.uploads, verifBackup.uploadGen, verifBackup.files = nil, nil, nil
	verifBackup.readers = map[*bytes.Reader][]byte{}
	verifBackupClock, verifBackupUploadTimes, verifBackupAttemptTimes = 0, nil, nil
	verifBackupCancelNow, verifDecidedAtWait = false, -1
	// a database write may land between the loop's reading of the generation and its reading of the file (at one chosen read)
	verifBackup.raceRead, verifBackup.reads = nondetChoice("write.races.file.read.number", 4), 0
	ctx := &verifBackupCtx{}
	var _ context.Context = ctx

	s.periodicBackup(ctx)

	// the task returned: only because the context was cancelled
	assert("terminates-only-on-cancellation", ctx.done)
	assert("pending-change-triggers-upload-attempt", implies(verifBackup.mustUpload, verifBackup.attempts > 0))
	// every upload is a byte-exact copy of one whole file read
	for i, up := range verifBackup.uploads {
		exact := false
		for _, f := range verifBackup.files {
			exact = or(exact, sameBacking(up, f))
		}
		assert("upload-is-whole-file-read", exact)
		if i > 0 {
			assert("at-most-one-upload-per-minute", verifBackupUploadTimes[i]-verifBackupUploadTimes[i-1] >= 60)
		}
	}
	for i := range verifBackupAttemptTimes {
		if i > 0 {
			assert("at-most-one-upload-attempt-per-minute", verifBackupAttemptTimes[i]-verifBackupAttemptTimes[i-1] >= 60)
		}
	}
	if verifBackup.genCalls >= 1 && ghostCount("s3.put.call") == 0 && ghostCount("readfile.failed") == 0 {
		reach("end-no-upload")
	}
	reach("end")
}
