package db

import (
	"github.com/tailscale/setec/acl"
	"github.com/tailscale/setec/audit"
	"github.com/tailscale/setec/types/api"
	"strings"
)

// C06: the audit record is written and synced before any effect or disclosure; fail-closed.

// verifAuditCtx lets the sink and the save stub observe the database at the
// instant a record is written / the file is replaced.
var verifAuditCtx struct {
	k    *kv
	pre  map[string]*secret
	sink *verifSink
	on   bool
}

// verifAuditSinkWrite is called by verifSink.Write when the C06 context is on.
func verifAuditObserveWrite() {
	if !verifAuditCtx.on {
		return
	}
	// the record is being written: no effect may have happened yet
	assert("log-before-memory-effect", deepEq(verifAuditCtx.k.secrets, verifAuditCtx.pre))
	assert("log-before-save", ghostCount("disk.write") == 0)
}

func verifAuditObserveSave() {
	if !verifAuditCtx.on {
		return
	}
	s := verifAuditCtx.sink
	assert("save-after-sealed-record", and(len(s.writes) >= 1, s.synced == len(s.writes)))
}

func verifEntryMatches(rec []byte, caller Caller, action acl.Action, name string, ver api.SecretVersion, authorized bool) bool {
	var e audit.Entry
	if !jsonBlobAs(rec, &e) {
		return false
	}
	// the record has exactly the documented fields: in particular nothing that could carry a secret value
	if jsonBlobKeys(rec) != "action,authorized,id,principal,secret,secretVersion,time" && jsonBlobKeys(rec) != verifAuditKeysNative(rec) {
		return false
	}
	return and(deepEq(e.Principal, caller.Principal), e.Action == action, e.Secret == name, e.SecretVersion == ver, e.Authorized == authorized)
}

func verifC06Run(op int) {
	verifAllowTable = nil
	k := verifSymKV(param("secrets"), param("versions"), "")
	assume(verifKVInv(k))
	assume(verifKVBound(k))
	sink := &verifSink{mayFail: true}
	d := verifDB(k, sink)
	caller := verifCaller()
	name := nondetString("name")
	ver := api.SecretVersion(nondetU32("version"))
	val := nondetSeq("val")
	pre := snapshot(k.secrets)
	preGen := k.gen
	verifAuditCtx.k, verifAuditCtx.pre, verifAuditCtx.sink, verifAuditCtx.on = k, pre, sink, true

	res := verifCallOp(d, op, caller, name, ver, val)

	verifAuditCtx.on = false
	a := verifAllowUF(caller.Permissions, res.required, name)
	sinkFailed := ghostCount("sink.write.failed")+ghostCount("sink.sync.failed") > 0
	changed := or(not(deepEq(k.secrets, pre)), k.gen != preGen, ghostCount("disk.write") > 0)

	if sinkFailed {
		assert("fail-closed-error", res.err != nil)
		assert("fail-closed-no-result", !res.disclosed())
		assert("fail-closed-no-effect", not(changed))
		reach("end-sink-failed")
		return
	}
	sealed := and(len(sink.writes) >= 1, sink.synced == len(sink.writes))
	if res.disclosed() {
		assert("disclosure-after-sealed-record", sealed)
	}
	assert("effect-after-sealed-record", implies(changed, sealed))
	if !a {
		if res.wellForm {
			assert("denial-logged-once", and(len(sink.writes) == 1, sink.synced == 1))
			assert("denial-record", verifEntryMatches(sink.writes[0], caller, res.required, name, 0*ver+verifDenialVer(op, ver), false))
		}
		reach("end-denied")
		return
	}
	if len(sink.writes) > 0 {
		assert("at-most-one-record", len(sink.writes) == 1)
		assert("record-content", verifEntryMatches(sink.writes[0], caller, res.required, name, res.logVer, true))
		reach("end-logged")
		return
	}
	// allowed, healthy sink, nothing logged: legal only for an unchanged conditional get or an ill-formed request
	unchangedCond := false
	if op == opGetConditional {
		if ps := pre[name]; ps != nil {
			unchangedCond = ps.ActiveVersion == ver
		} else {
			unchangedCond = true // not found: nothing disclosed
		}
	}
	assert("silent-only-when-nothing-happened", and(!res.disclosed(), not(changed), or(unchangedCond, !res.wellForm)))
	reach("end-silent")
}

// GetConditional's denial record carries version 0 (the code logs the default version); others carry their argument.
func verifDenialVer(op int, ver api.SecretVersion) api.SecretVersion {
	switch op {
	case opGetVersion, opActivate, opDeleteVersion:
		return ver
	}
	return 0
}

func verifHarnessC06Info()           { verifC06Run(opInfo) }
func verifHarnessC06Get()            { verifC06Run(opGet) }
func verifHarnessC06GetConditional() { verifC06Run(opGetConditional) }
func verifHarnessC06GetVersion()     { verifC06Run(opGetVersion) }
func verifHarnessC06Put()            { verifC06Run(opPut) }
func verifHarnessC06Activate()       { verifC06Run(opActivate) }
func verifHarnessC06DeleteVersion()  { verifC06Run(opDeleteVersion) }
func verifHarnessC06Delete()         { verifC06Run(opDelete) }

// An unchanged conditional poll writes no record at all.
func verifHarnessC06UnchangedPollSilent() {
	verifAllowTable = nil
	k := verifSymKV(param("secrets"), param("versions"), "")
	assume(verifKVInv(k))
	sink := &verifSink{}
	d := verifDB(k, sink)
	caller := verifCaller()
	name := nondetString("name")
	ver := api.SecretVersion(nondetU32("version"))
	pre := snapshot(k.secrets)
	ps := pre[name]
	if ps == nil {
		return
	}
	assume(ps.ActiveVersion == ver)
	assume(verifAllowUF(caller.Permissions, acl.ActionGet, name))
	sv, err := d.GetConditional(caller, name, ver)
	assert("not-changed", and(sv == nil, err == api.ErrValueNotChanged))
	assert("no-record", len(sink.writes) == 0)
	reach("end")
}

// List writes exactly one record up front.
func verifHarnessC06List() {
	verifAllowTable = nil
	k := verifSymKV(param("secrets"), 1, "")
	assume(verifKVInv(k))
	sink := &verifSink{mayFail: true}
	d := verifDB(k, sink)
	caller := verifCaller()
	infos, err := d.List(caller)
	sinkFailed := ghostCount("sink.write.failed")+ghostCount("sink.sync.failed") > 0
	if sinkFailed {
		assert("fail-closed", and(err != nil, infos == nil))
		reach("end-failed")
		return
	}
	assert("ok", err == nil)
	assert("one-record", and(len(sink.writes) == 1, sink.synced == 1))
	assert("record", verifEntryMatches(sink.writes[0], caller, acl.ActionInfo, "", 0, true))
	reach("end")
}

// WriteEntries returns the first encode error, otherwise Sync's verdict.
func verifHarnessC06WriteEntries() {
	sink := &verifSink{mayFail: true}
	w := audit.New(sink)
	e1 := &audit.Entry{Secret: "a"}
	e2 := &audit.Entry{Secret: "b"}
	err := w.WriteEntries(e1, e2)
	wf := ghostCount("sink.write.failed") > 0
	sf := ghostCount("sink.sync.failed") > 0
	assert("error-iff-fault", (err != nil) == (wf || sf))
	if err == nil {
		assert("both-written-and-synced", and(len(sink.writes) == 2, sink.synced == 2))
	}
	if wf {
		assert("stops-at-first-write-error", ghostCount("sink.write") <= 1)
	}
	reach("end")
}

// natively omitempty drops empty fields, so the key set is a subset of the documented one
func verifAuditKeysNative(rec []byte) string {
	if symbolic() {
		return "-"
	}
	allowed := map[string]bool{"action": true, "authorized": true, "id": true, "principal": true, "secret": true, "secretVersion": true, "time": true}
	keys := jsonBlobKeys(rec)
	for _, k := range strings.Split(keys, ",") {
		if !allowed[k] {
			return "-"
		}
	}
	return keys
}
