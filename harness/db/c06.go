package db

import (
	"bytes"
	"github.com/tailscale/setec/acl"
	"github.com/tailscale/setec/audit"
	"github.com/tailscale/setec/types/api"
	"strings"
)

// C06: the audit record is written and synced before any effect or disclosure; fail-closed.

// verifAuditCtx lets the sink and the save stub observe the database at the
// instant a record is written / the file is replaced.
var verifAuditCtx struct {
	k    *kv
	pre  map[string]*secret
	sink *verifSink
	on   bool
}

// verifAuditSinkWrite is called by verifSink.Write when the C06 context is on.
func verifAuditObserveWrite() {
	if !verifAuditCtx.on {
		return
	}
	// the record is being written: no effect may have happened yet
	assert("log-before-memory-effect", deepEq(verifAuditCtx.k.secrets, verifAuditCtx.pre))
	assert("log-before-save", ghostCount("disk.write") == 0)
}

func verifAuditObserveSave() {
	if !verifAuditCtx.on {
		return
	}
	s := verifAuditCtx.sink
	assert("save-after-sealed-record", and(len(s.writes) >= 1, s.synced == len(s.writes)))
}

// The record names the version "where one was given" (C06): for operations whose caller names no version (get,
// conditional get, info, put, delete) the version field is not constrained (verGiven=false) — a record that
// volunteers the version actually served is still a complete record.
func verifEntryMatches(rec []byte, caller Caller, action acl.Action, name string, ver api.SecretVersion, verGiven bool, authorized bool) bool {
	var e audit.Entry
	if !jsonBlobAs(rec, &e) {
		return false
	}
	// the record has exactly the documented fields: in particular nothing that could carry a secret value
	if jsonBlobKeys(rec) != "action,authorized,id,principal,secret,secretVersion,time" && jsonBlobKeys(rec) != verifAuditKeysNative(rec) {
		return false
	}
	return and(deepEq(e.Principal, caller.Principal), e.Action == action, e.Secret == name, or(!verGiven, e.SecretVersion == ver), e.Authorized == authorized)
}

func verifC06Run(op int) {
	verifAllowTable = nil
	k := verifSymKV(param("secrets"), param("versions"), "")
	assume(verifKVInv(k))
	assume(verifKVBound(k))
	sink := &verifSink{mayFail: true}
	d := verifDB(k, sink)
	caller := verifCaller()
	name := nondetString("name")
	// through the Go API the name may be any string, also one that is not valid UTF-8 (which a JSON record cannot carry)
	verifIllFormedName = nondetBool("name.is.not.valid.utf8")
	illFormedIf(name, verifIllFormedName)
	ver := api.SecretVersion(nondetU32("version"))
	val := nondetSeq("val")
	pre := snapshot(k.secrets)
	preGen := k.gen
	verifAuditCtx.k, verifAuditCtx.pre, verifAuditCtx.sink, verifAuditCtx.on = k, pre, sink, true

	res := verifCallOp(d, op, caller, name, ver, val)
	verifIllFormedName = false

	verifAuditCtx.on = false
	a := verifAllowUF(caller.Permissions, res.required, name)
	sinkFailed := ghostCount("sink.write.failed")+ghostCount("sink.sync.failed") > 0
	changed := or(not(deepEq(k.secrets, pre)), k.gen != preGen, ghostCount("disk.write") > 0)

	if sinkFailed {
		assert("fail-closed-error", res.err != nil)
		assert("fail-closed-no-result", !res.disclosed())
		assert("fail-closed-no-effect", not(changed))
		reach("end-sink-failed")
		return
	}
	sealed := and(len(sink.writes) >= 1, sink.synced == len(sink.writes))
	if res.disclosed() {
		assert("disclosure-after-sealed-record", sealed)
	}
	assert("effect-after-sealed-record", implies(changed, sealed))
	if !a {
		if res.wellForm {
			assert("denial-logged-once", and(len(sink.writes) == 1, sink.synced == 1))
			assert("denial-record", verifEntryMatches(sink.writes[0], caller, res.required, name, ver, verifVerGiven(op), false))
		}
		reach("end-denied")
		return
	}
	if len(sink.writes) > 0 {
		assert("at-most-one-record", len(sink.writes) == 1)
		assert("record-content", verifEntryMatches(sink.writes[0], caller, res.required, name, ver, verifVerGiven(op), true))
		reach("end-logged")
		return
	}
	// allowed, healthy sink, nothing logged: legal only for an unchanged conditional get or an ill-formed request
	unchangedCond := false
	if op == opGetConditional {
		if ps := pre[name]; ps != nil {
			unchangedCond = ps.ActiveVersion == ver
		} else {
			unchangedCond = true // not found: nothing disclosed
		}
	}
	assert("silent-only-when-nothing-happened", and(!res.disclosed(), not(changed), or(unchangedCond, !res.wellForm)))
	reach("end-silent")
}

// the operations whose caller names a version (a conditional get's V is a comparison value, not the version asked for)
func verifVerGiven(op int) bool {
	switch op {
	case opGetVersion, opActivate, opDeleteVersion:
		return true
	}
	return false
}

func verifHarnessC06Info()           { verifC06Run(opInfo) }
func verifHarnessC06Get()            { verifC06Run(opGet) }
func verifHarnessC06GetConditional() { verifC06Run(opGetConditional) }
func verifHarnessC06GetVersion()     { verifC06Run(opGetVersion) }
func verifHarnessC06Put()            { verifC06Run(opPut) }
func verifHarnessC06Activate()       { verifC06Run(opActivate) }
func verifHarnessC06DeleteVersion()  { verifC06Run(opDeleteVersion) }
func verifHarnessC06Delete()         { verifC06Run(opDelete) }

// An unchanged conditional poll writes no record at all.
func verifHarnessC06UnchangedPollSilent() {
	verifAllowTable = nil
	k := verifSymKV(param("secrets"), param("versions"), "")
	assume(verifKVInv(k))
	sink := &verifSink{}
	d := verifDB(k, sink)
	caller := verifCaller()
	name := nondetString("name")
	ver := api.SecretVersion(nondetU32("version"))
	pre := snapshot(k.secrets)
	ps := pre[name]
	if ps == nil {
		return
	}
	assume(ps.ActiveVersion == ver)
	assume(verifAllowUF(caller.Permissions, acl.ActionGet, name))
	sv, err := d.GetConditional(caller, name, ver)
	assert("not-changed", and(sv == nil, err == api.ErrValueNotChanged))
	assert("no-record", len(sink.writes) == 0)
	reach("end")
}

// List writes exactly one record up front.
func verifHarnessC06List() {
	verifAllowTable = nil
	k := verifSymKV(param("secrets"), 1, "")
	assume(verifKVInv(k))
	sink := &verifSink{mayFail: true}
	d := verifDB(k, sink)
	caller := verifCaller()
	infos, err := d.List(caller)
	sinkFailed := ghostCount("sink.write.failed")+ghostCount("sink.sync.failed") > 0
	if sinkFailed {
		assert("fail-closed", and(err != nil, infos == nil))
		reach("end-failed")
		return
	}
	assert("ok", err == nil)
	assert("one-record", and(len(sink.writes) == 1, sink.synced == 1))
	assert("record", verifEntryMatches(sink.writes[0], caller, acl.ActionInfo, "", 0, false, true))
	reach("end")
}

// WriteEntries returns the first encode error, otherwise Sync's verdict.
func verifHarnessC06WriteEntries() {
	sink := &verifSink{mayFail: true}
	w := audit.New(sink)
	e1 := &audit.Entry{Secret: "a"}
	e2 := &audit.Entry{Secret: "b"}
	err := w.WriteEntries(e1, e2)
	wf := ghostCount("sink.write.failed") > 0
	sf := ghostCount("sink.sync.failed") > 0
	assert("error-iff-fault", (err != nil) == (wf || sf))
	if err == nil {
		// both records reached the sink, in order, and everything written is synced (one Write per record or one per batch)
		recs := verifRecordsOf(sink.writes)
		assert("both-written-and-synced", and(len(recs) == 2, sink.synced == len(sink.writes)))
		if len(recs) == 2 {
			var r1, r2 audit.Entry
			assert("records-complete-and-in-order", and(jsonBlobAs(recs[0], &r1), jsonBlobAs(recs[1], &r2), r1.Secret == "a", r2.Secret == "b"))
		}
	}
	if wf {
		assert("stops-at-first-write-error", ghostCount("sink.write") <= 1)
	}
	reach("end")
}

// Records of concurrent requests are never interleaved, truncated or lost: another goroutine's WriteEntries runs to
// completion while the sink is still copying the first record (the bytes handed to Write must stay the caller's own
// until Write returns).
type verifBusySink struct {
	w       *audit.Writer
	second  *audit.Entry
	nested  bool
	err2    error
	writes  [][]byte
	mayFail bool
	failed  bool
}

func (s *verifBusySink) Write(p []byte) (int, error) {
	if !s.nested {
		s.nested = true
		concurrently(func() { s.err2 = s.w.WriteEntries(s.second) })
	}
	if s.mayFail {
		if nondetBool("sink.write.fail") {
			s.failed = true
			return 0, verifErrInjected
		}
	}
	s.writes = append(s.writes, append([]byte(nil), p...)) // the copy into the file happens only now
	return len(p), nil
}

func (s *verifBusySink) Sync() error { return nil }

func verifHarnessC06ConcurrentWriters() {
	sink := &verifBusySink{mayFail: nondetBool("sink.may.fail")}
	w := audit.New(sink)
	sink.w = w
	e1 := &audit.Entry{Secret: nondetString("secret1"), Action: acl.ActionGet, Authorized: nondetBool("auth1")}
	e2 := &audit.Entry{Secret: nondetString("secret2"), Action: acl.ActionPut, Authorized: nondetBool("auth2")}
	assume(e1.Secret != e2.Secret)
	sink.second = e2
	raceBegin()
	err1 := w.WriteEntries(e1)
	joinConcurrent()
	raceEnd()
	if sink.failed {
		// a failing sink: the two calls must still not touch the writer's memory unsynchronised (checked by raceEnd above)
		assert("failing-sink-is-reported", or(err1 != nil, sink.err2 != nil))
		reach("end-failed")
		return
	}
	assert("both-calls-succeed", and(err1 == nil, sink.err2 == nil))
	got1, got2, other := 0, 0, 0
	for _, rec := range sink.writes {
		var e audit.Entry
		if !jsonBlobAs(rec, &e) {
			other++
			continue
		}
		switch {
		case and(e.Secret == e1.Secret, e.Action == acl.ActionGet, e.Authorized == e1.Authorized):
			got1++
		case and(e.Secret == e2.Secret, e.Action == acl.ActionPut, e.Authorized == e2.Authorized):
			got2++
		default:
			other++
		}
	}
	assert("first-callers-record-arrives-intact-exactly-once", got1 == 1)
	assert("second-callers-record-arrives-intact-exactly-once", got2 == 1)
	assert("nothing-else-reaches-the-log", other == 0)
	reach("end")
}

// verifRecordsOf: the records contained in a sequence of sink writes (a write may carry a batch of lines).
func verifRecordsOf(writes [][]byte) [][]byte {
	var out [][]byte
	for _, w := range writes {
		out = append(out, verifSplitBatch(w, 3)...)
	}
	return out
}

func verifSplitBatch(w []byte, depth int) [][]byte {
	if symbolic() {
		if parts, ok := blobOpen(w, "CAT"); ok && depth > 0 {
			var out [][]byte
			for _, p := range parts {
				out = append(out, verifSplitBatch(blobPartBytes(p), depth-1)...)
			}
			return out
		}
		return [][]byte{w}
	}
	var out [][]byte
	for _, line := range bytes.SplitAfter(w, []byte("\n")) {
		if len(line) > 0 {
			out = append(out, line)
		}
	}
	return out
}

// natively omitempty drops empty fields, so the key set is a subset of the documented one
func verifAuditKeysNative(rec []byte) string {
	if symbolic() {
		return "-"
	}
	allowed := map[string]bool{"action": true, "authorized": true, "id": true, "principal": true, "secret": true, "secretVersion": true, "time": true}
	keys := jsonBlobKeys(rec)
	for _, k := range strings.Split(keys, ",") {
		if !allowed[k] {
			return "-"
		}
	}
	return keys
}

// ---------- a sink that fails at one chosen record -- possibly after taking part of it -- and then works again ----------

// verifFlakySink fails one chosen Write. The failing Write may be short: a non-empty proper prefix of the record has
// reached the file (a disk that fills up mid-record). The sink remembers, for every later complete Write, whether it
// began at a line boundary: only then do its bytes form a line of their own in the file.
type verifFlakySink struct {
	failAt   int
	n        int
	tailOpen bool // the file's last byte is not a newline
	writes   [][]byte
	ownLine  []bool
	syncedTo int
}

func (s *verifFlakySink) Write(p []byte) (int, error) {
	idx := s.n
	s.n++
	if idx == s.failAt {
		if nondetBool("sink.write.short") {
			frag := fragmentOf(p)
			s.tailOpen = true
			ghostLog("sink.write.short")
			return len(frag), verifErrInjected
		}
		ghostLog("sink.write.failed")
		return 0, verifErrInjected
	}
	s.writes = append(s.writes, append([]byte(nil), p...))
	s.ownLine = append(s.ownLine, !s.tailOpen)
	s.tailOpen = !endsWithNewline(p)
	return len(p), nil
}

func (s *verifFlakySink) Sync() error { s.syncedTo = len(s.writes); return nil }

// Two requests one after the other on one database; the sink fails while the first one's record is written.
// The first request fails closed. The second one may be refused as well (fail-closed is always allowed), but if it is
// served -- a value returned or a change made -- the file holds its record as one complete line of its own, synced.
func verifHarnessC06SinkRecovers() {
	verifAllowTable = nil
	k := verifSymKV(param("secrets"), param("versions"), "")
	assume(verifKVInv(k))
	assume(verifKVBound(k))
	sink := &verifFlakySink{failAt: 0}
	d := &DB{kv: k, auditLog: audit.New(sink)}
	caller := verifCaller()
	name := nondetString("name")
	ver := api.SecretVersion(nondetU32("version"))
	val := nondetSeq("val")

	op1 := opGet
	if nondetBool("first.is.put") {
		op1 = opPut
	}
	pre := snapshot(k.secrets)
	preGen := k.gen
	res1 := verifCallOp(d, op1, caller, name, ver, val)
	a1 := verifAllowUF(caller.Permissions, res1.required, name)
	if and(res1.wellForm, sink.n > 0) {
		assert("first-request-fails-closed", and(res1.err != nil, !res1.disclosed(), deepEq(k.secrets, pre), k.gen == preGen))
	}
	_ = a1

	op2 := opGet
	if nondetBool("second.is.put") {
		op2 = opPut
	}
	name2 := nondetString("name2")
	pre2 := snapshot(k.secrets)
	preGen2 := k.gen
	res2 := verifCallOp(d, op2, caller, name2, ver, val)
	served := or(res2.disclosed(), not(deepEq(k.secrets, pre2)), k.gen != preGen2)
	has := false
	for i, w := range sink.writes {
		if and(sink.ownLine[i], i < sink.syncedTo, verifEntryMatches(w, caller, res2.required, name2, ver, false, true)) {
			has = true
		}
	}
	assert("a-served-request-has-a-complete-line-of-its-own-in-the-log", implies(served, has))
	reach("end")
}
