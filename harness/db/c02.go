package db

import (
	"github.com/tailscale/setec/types/api"
)

// C02: one inductive step of every kv operation against the map model.

func verifVersionsEqExcept(post, pre *secret, v api.SecretVersion) bool {
	// post.Versions == pre.Versions ∪ {v ↦ _}; compared slot-wise as terms
	a := mapAll(pre.Versions, func(k api.SecretVersion, bs byteString) bool {
		return and(mapHas(post.Versions, k), post.Versions[k] == bs)
	})
	b := mapAll(post.Versions, func(k api.SecretVersion, bs byteString) bool {
		return or(k == v, and(mapHas(pre.Versions, k), pre.Versions[k] == bs))
	})
	return and(a, b)
}

func verifHarnessC02Put() {
	k := verifSymKV(param("secrets"), param("versions"), "save.fail")
	assume(verifKVInv(k))
	assume(verifKVBound(k))
	d := verifDB(k, &verifSink{})
	name := nondetString("name")
	other := nondetString("other")
	assume(other != name)
	val := nondetSeq("val")
	pre := snapshot(k.secrets)
	preGen := k.gen

	v, err := d.Put(verifSuperuser(), name, val)

	assert("inv", verifKVInv(k))
	assert("frame", deepEq(k.secrets[other], pre[other]))
	if err != nil {
		assert("rollback", deepEq(k.secrets, pre))
		assert("gen-unchanged-on-error", k.gen == preGen)
		assert("zero-on-error", v == 0)
		reach("end-error")
		return
	}
	assert("name-valid", and(name != "", not(hasConfigPrefix(name))))
	s := k.secrets[name]
	assert("exists", s != nil)
	assert("retrievable", and(mapHas(s.Versions, v), s.Versions[v] == byteString(val)))
	ps := pre[name]
	if ps == nil {
		// first put: version 1, active
		assert("first-v1", and(v == 1, s.ActiveVersion == 1, s.LatestVersion == 1))
		assert("first-only", mapAll(s.Versions, func(kk api.SecretVersion, _ byteString) bool { return kk == 1 }))
		assert("gen-advanced", k.gen == preGen+1)
		reach("end-first")
		return
	}
	dedupe := and(mapHas(ps.Versions, ps.LatestVersion), ps.Versions[ps.LatestVersion] == byteString(val))
	assert("active-unchanged", s.ActiveVersion == ps.ActiveVersion)
	if dedupe {
		assert("dedupe-returns-latest", v == ps.LatestVersion)
		assert("dedupe-no-change", deepEq(s, ps))
		assert("dedupe-gen", k.gen == preGen)
		reach("end-dedupe")
		return
	}
	assert("fresh-number", and(v == ps.LatestVersion+1, s.LatestVersion == v, not(mapHas(ps.Versions, v))))
	assert("others-kept", verifVersionsEqExcept(s, ps, v))
	assert("gen-advanced", k.gen == preGen+1)
	reach("end-new-version")
}
