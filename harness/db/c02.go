package db

import (
	"errors"

	"github.com/tailscale/setec/types/api"
)

// C02: one inductive step of every kv operation against the map model.

func verifVersionsEqExcept(post, pre *secret, v api.SecretVersion) bool {
	// post.Versions == pre.Versions ∪ {v ↦ _}; compared slot-wise as terms
	a := mapAll(pre.Versions, func(k api.SecretVersion, bs byteString) bool {
		return and(mapHas(post.Versions, k), post.Versions[k] == bs)
	})
	b := mapAll(post.Versions, func(k api.SecretVersion, bs byteString) bool {
		return or(k == v, and(mapHas(pre.Versions, k), pre.Versions[k] == bs))
	})
	return and(a, b)
}

func verifHarnessC02Put() {
	k := verifSymKV(param("secrets"), param("versions"), "save.fail")
	assume(verifKVInv(k))
	assume(verifKVBound(k))
	d := verifDB(k, &verifSink{})
	name := nondetString("name")
	other := nondetString("other")
	assume(other != name)
	val := nondetSeq("val")
	pre := snapshot(k.secrets)
	preGen := k.gen

	v, err := d.Put(verifSuperuser(), name, val)

	assert("inv", verifKVInv(k))
	assert("frame", deepEq(k.secrets[other], pre[other]))
	if err != nil {
		assert("rollback", deepEq(k.secrets, pre))
		assert("gen-unchanged-on-error", k.gen == preGen)
		assert("zero-on-error", v == 0)
		reach("end-error")
		return
	}
	assert("name-valid", and(name != "", not(hasConfigPrefix(name))))
	s := k.secrets[name]
	assert("exists", s != nil)
	assert("retrievable", and(mapHas(s.Versions, v), s.Versions[v] == byteString(val)))
	ps := pre[name]
	if ps == nil {
		// first put: version 1, active
		assert("first-v1", and(v == 1, s.ActiveVersion == 1, s.LatestVersion == 1))
		assert("first-only", mapAll(s.Versions, func(kk api.SecretVersion, _ byteString) bool { return kk == 1 }))
		assert("gen-advanced", k.gen == preGen+1)
		reach("end-first")
		return
	}
	dedupe := and(mapHas(ps.Versions, ps.LatestVersion), ps.Versions[ps.LatestVersion] == byteString(val))
	assert("active-unchanged", s.ActiveVersion == ps.ActiveVersion)
	if dedupe {
		assert("dedupe-returns-latest", v == ps.LatestVersion)
		assert("dedupe-no-change", deepEq(s, ps))
		assert("dedupe-gen", k.gen == preGen)
		reach("end-dedupe")
		return
	}
	assert("fresh-number", and(v == ps.LatestVersion+1, s.LatestVersion == v, not(mapHas(ps.Versions, v))))
	assert("others-kept", verifVersionsEqExcept(s, ps, v))
	assert("gen-advanced", k.gen == preGen+1)
	reach("end-new-version")
}

func verifNameOK(name string) bool { return and(name != "", not(hasConfigPrefix(name))) }

func verifHarnessC02Activate() {
	k := verifSymKV(param("secrets"), param("versions"), "save.fail")
	assume(verifKVInv(k))
	assume(verifKVBound(k))
	d := verifDB(k, &verifSink{})
	name := nondetString("name")
	other := nondetString("other")
	assume(other != name)
	ver := api.SecretVersion(nondetU32("version"))
	pre := snapshot(k.secrets)
	preGen := k.gen

	err := d.Activate(verifSuperuser(), name, ver)

	assert("inv", verifKVInv(k))
	assert("frame", deepEq(k.secrets[other], pre[other]))
	ps := pre[name]
	precond := and(verifNameOK(name), ver != 0, ps != nil)
	if ps != nil {
		precond = and(precond, mapHas(ps.Versions, ver))
	}
	if err != nil {
		assert("unchanged-on-error", deepEq(k.secrets, pre))
		assert("gen-unchanged-on-error", k.gen == preGen)
		assert("error-has-cause", or(not(precond), verifFaulted()))
		// a missing secret or version is reported in the not-found class (the server maps exactly that class to 404)
		if verifNameOK(name) && ver != 0 && !verifFaulted() {
			assert("missing-secret-or-version-is-not-found", errors.Is(err, ErrNotFound))
		}
		reach("end-error")
		return
	}
	assert("success-needs-precond", precond)
	s := k.secrets[name]
	assert("exists", s != nil)
	assert("active-set", s.ActiveVersion == ver)
	assert("versions-kept", and(deepEq(s.Versions, ps.Versions), s.LatestVersion == ps.LatestVersion))
	assert("gen", k.gen == iteU64(ps.ActiveVersion == ver, preGen, preGen+1))
	reach("end-ok")
}

func verifHarnessC02DeleteVersion() {
	k := verifSymKV(param("secrets"), param("versions"), "save.fail")
	assume(verifKVInv(k))
	assume(verifKVBound(k))
	d := verifDB(k, &verifSink{})
	name := nondetString("name")
	other := nondetString("other")
	assume(other != name)
	ver := api.SecretVersion(nondetU32("version"))
	pre := snapshot(k.secrets)
	preGen := k.gen

	err := d.DeleteVersion(verifSuperuser(), name, ver)

	assert("inv", verifKVInv(k))
	assert("frame", deepEq(k.secrets[other], pre[other]))
	ps := pre[name]
	precond := and(not(hasConfigPrefix(name)), ver != 0, ps != nil)
	if ps != nil {
		precond = and(precond, mapHas(ps.Versions, ver), ps.ActiveVersion != ver)
	}
	if err != nil {
		assert("unchanged-on-error", deepEq(k.secrets, pre))
		assert("gen-unchanged-on-error", k.gen == preGen)
		assert("error-has-cause", or(not(precond), verifFaulted()))
		if !hasConfigPrefix(name) && ver != 0 && !verifFaulted() {
			missing := ps == nil
			if ps != nil {
				missing = not(mapHas(ps.Versions, ver))
			}
			if missing {
				assert("missing-secret-or-version-is-not-found", errors.Is(err, ErrNotFound))
			}
		}
		reach("end-error")
		return
	}
	assert("success-needs-precond", precond)
	s := k.secrets[name]
	assert("exists", s != nil)
	assert("active-kept", and(s.ActiveVersion == ps.ActiveVersion, s.LatestVersion == ps.LatestVersion))
	assert("version-gone", not(mapHas(s.Versions, ver)))
	assert("others-kept", mapAll(ps.Versions, func(kk api.SecretVersion, bs byteString) bool {
		return or(kk == ver, and(mapHas(s.Versions, kk), s.Versions[kk] == bs))
	}))
	assert("nothing-added", mapAll(s.Versions, func(kk api.SecretVersion, bs byteString) bool {
		return and(mapHas(ps.Versions, kk), ps.Versions[kk] == bs)
	}))
	assert("gen-advanced", k.gen == preGen+1)
	reach("end-ok")
}

func verifHarnessC02Delete() {
	k := verifSymKV(param("secrets"), param("versions"), "save.fail")
	assume(verifKVInv(k))
	assume(verifKVBound(k))
	d := verifDB(k, &verifSink{})
	name := nondetString("name")
	other := nondetString("other")
	assume(other != name)
	pre := snapshot(k.secrets)
	preGen := k.gen

	err := d.Delete(verifSuperuser(), name)

	assert("inv", verifKVInv(k))
	assert("frame", deepEq(k.secrets[other], pre[other]))
	if err != nil {
		assert("unchanged-on-error", deepEq(k.secrets, pre))
		assert("gen-unchanged-on-error", k.gen == preGen)
		assert("error-has-cause", or(hasConfigPrefix(name), verifFaulted()))
		reach("end-error")
		return
	}
	assert("success-needs-precond", not(hasConfigPrefix(name)))
	assert("gone", not(mapHas(k.secrets, name)))
	assert("others-kept", mapAll(pre, func(n string, s *secret) bool {
		return or(n == name, mapHas(k.secrets, n))
	}))
	assert("gen", k.gen == iteU64(mapHas(pre, name), preGen+1, preGen))
	reach("end-ok")
}

func verifHarnessC02Get() {
	k := verifSymKV(param("secrets"), param("versions"), "")
	assume(verifKVInv(k))
	d := verifDB(k, &verifSink{})
	name := nondetString("name")
	pre := snapshot(k.secrets)
	preGen := k.gen

	sv, err := d.Get(verifSuperuser(), name)

	assert("state-unchanged", and(deepEq(k.secrets, pre), k.gen == preGen))
	ps := pre[name]
	if ps == nil {
		assert("absent-notfound", and(sv == nil, errors.Is(err, ErrNotFound)))
		reach("end-absent")
		return
	}
	assert("present-ok", and(err == nil, sv != nil))
	assert("active-number", sv.Version == ps.ActiveVersion)
	assert("active-bytes", byteString(sv.Value) == ps.Versions[ps.ActiveVersion])
	// copy-out: mutating the returned slice must not change the store
	mutate(sv.Value)
	assert("no-alias", deepEq(k.secrets, pre))
	reach("end-present")
}

func verifHarnessC02GetVersion() {
	k := verifSymKV(param("secrets"), param("versions"), "")
	assume(verifKVInv(k))
	d := verifDB(k, &verifSink{})
	name := nondetString("name")
	ver := api.SecretVersion(nondetU32("version"))
	pre := snapshot(k.secrets)
	preGen := k.gen

	sv, err := d.GetVersion(verifSuperuser(), name, ver)

	assert("state-unchanged", and(deepEq(k.secrets, pre), k.gen == preGen))
	ps := pre[name]
	found := ps != nil
	if ps != nil {
		if !mapHas(ps.Versions, ver) {
			found = false
		}
	}
	if !found {
		assert("absent-notfound", and(sv == nil, errors.Is(err, ErrNotFound)))
		reach("end-absent")
		return
	}
	assert("present-ok", and(err == nil, sv != nil))
	assert("number", sv.Version == ver)
	assert("bytes", byteString(sv.Value) == ps.Versions[ver])
	mutate(sv.Value)
	assert("no-alias", deepEq(k.secrets, pre))
	reach("end-present")
}

func verifSortedStrict(vs []api.SecretVersion) bool {
	ok := true
	for i := 1; i < len(vs); i++ {
		ok = and(ok, vs[i-1] < vs[i])
	}
	return ok
}

func verifHarnessC02Info() {
	k := verifSymKV(param("secrets"), param("versions"), "")
	assume(verifKVInv(k))
	d := verifDB(k, &verifSink{})
	name := nondetString("name")
	pre := snapshot(k.secrets)

	info, err := d.Info(verifSuperuser(), name)

	assert("state-unchanged", deepEq(k.secrets, pre))
	ps := pre[name]
	if ps == nil {
		assert("absent-notfound", and(info == nil, errors.Is(err, ErrNotFound)))
		reach("end-absent")
		return
	}
	assert("present-ok", and(err == nil, info != nil))
	assert("name-active", and(info.Name == name, info.ActiveVersion == ps.ActiveVersion))
	assert("count", len(info.Versions) == len(ps.Versions))
	assert("sorted-distinct", verifSortedStrict(info.Versions))
	all := true
	for _, v := range info.Versions {
		all = and(all, mapHas(ps.Versions, v))
	}
	assert("members", all)
	reach("end-present")
}

func verifHarnessC02List() {
	k := verifSymKV(param("secrets"), param("versions"), "")
	assume(verifKVInv(k))
	d := verifDB(k, &verifSink{})
	pre := snapshot(k.secrets)

	infos, err := d.List(verifSuperuser())

	assert("state-unchanged", deepEq(k.secrets, pre))
	assert("ok", err == nil)
	assert("count", len(infos) == len(pre))
	ok := true
	for i, in := range infos {
		if i > 0 {
			ok = and(ok, infos[i-1].Name < in.Name)
		}
		ps := pre[in.Name]
		if ps == nil {
			assert("listed-exists", false)
			return
		}
		ok = and(ok, in.ActiveVersion == ps.ActiveVersion, len(in.Versions) == len(ps.Versions), verifSortedStrict(in.Versions))
		for _, v := range in.Versions {
			ok = and(ok, mapHas(ps.Versions, v))
		}
	}
	assert("entries", ok)
	reach("end")
}

// ---------- bounded histories from the empty database against an executable map model ----------

// verifModelStep applies one operation to the reference model (the statement's "plain map model") and returns its result.
func verifModelStep(m map[string]*secret, op int, name string, ver api.SecretVersion, val []byte) (api.SecretVersion, bool) {
	reserved := hasConfigPrefix(name)
	switch op {
	case opPut:
		if name == "" || reserved {
			return 0, false
		}
		s := m[name]
		if s == nil {
			m[name] = &secret{Versions: map[api.SecretVersion]byteString{1: byteString(val)}, ActiveVersion: 1, LatestVersion: 1}
			return 1, true
		}
		if cur, ok := s.Versions[s.LatestVersion]; ok && cur == byteString(val) {
			return s.LatestVersion, true
		}
		s.LatestVersion++
		s.Versions[s.LatestVersion] = byteString(val)
		return s.LatestVersion, true
	case opActivate:
		if name == "" || reserved || ver == 0 {
			return 0, false
		}
		s := m[name]
		if s == nil {
			return 0, false
		}
		if _, ok := s.Versions[ver]; !ok {
			return 0, false
		}
		s.ActiveVersion = ver
		return 0, true
	case opDeleteVersion:
		if reserved || ver == 0 {
			return 0, false
		}
		s := m[name]
		if s == nil || s.ActiveVersion == ver {
			return 0, false
		}
		if _, ok := s.Versions[ver]; !ok {
			return 0, false
		}
		delete(s.Versions, ver)
		return 0, true
	case opDelete:
		if reserved {
			return 0, false
		}
		delete(m, name)
		return 0, true
	}
	return 0, true
}

func verifHarnessC02History() {
	k := &kv{path: verifDBPath(false), secrets: map[string]*secret{}, dekCipher: verifAEAD{key: 7}, dekRaw: []byte("wrapped-dek")}
	d := verifDB(k, &verifSink{})
	model := map[string]*secret{}
	// a small pool of names so that operations interact
	names := []string{nondetString("pool"), nondetString("pool")}
	for step := 0; step < param("steps"); step++ {
		op := []int{opPut, opActivate, opDeleteVersion, opDelete, opGet}[nondetChoice("op", 5)]
		name := names[nondetChoice("which", 2)]
		ver := api.SecretVersion(nondetU32("version"))
		assume(ver <= 4)
		val := nondetSeq("val")
		if op == opGet {
			sv, err := d.Get(verifSuperuser(), name)
			ms := model[name]
			if ms == nil {
				assert("get-absent", and(sv == nil, err != nil))
			} else {
				assert("get-model", and(err == nil, sv != nil))
				assert("get-model-pair", and(sv.Version == ms.ActiveVersion, byteString(sv.Value) == ms.Versions[ms.ActiveVersion]))
			}
			continue
		}
		res := verifCallOp(d, op, verifSuperuser(), name, ver, val)
		mv, mok := verifModelStep(model, op, name, ver, val)
		assert("success-as-model", (res.err == nil) == mok)
		if op == opPut && mok {
			assert("version-as-model", res.version == mv)
		}
		assert("state-as-model", deepEq(k.secrets, model))
		assert("invariant-reached", verifKVInv(k))
	}
	reach("end")
}
