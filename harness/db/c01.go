package db

import (
	"errors"
	"strings"

	"github.com/tailscale/setec/acl"
	"github.com/tailscale/setec/audit"
	"github.com/tailscale/setec/types/api"
)

// ---------- ALLOW(action, name) as an uninterpreted predicate ----------

type verifAllowEntry struct {
	a acl.Action
	n string
	r bool
}

var verifAllowTable []verifAllowEntry

// verifAllowUF replaces acl.Rules.Allow: an arbitrary but functional predicate
// of (action, name). Each query is also exposed as model variables so that a
// counterexample can be realised natively by literal rules (verifCaller).
func verifAllowUF(rr acl.Rules, action acl.Action, secret string) bool {
	if !symbolic() {
		return rr.Allow(action, secret)
	}
	r := nondetBool("allow")
	qa := nondetString("allow.a")
	qn := nondetString("allow.q")
	assume(and(qa == string(action), qn == secret))
	for _, e := range verifAllowTable {
		assume(implies(and(e.a == action, e.n == secret), r == e.r))
	}
	verifAllowTable = append(verifAllowTable, verifAllowEntry{action, secret, r})
	ghostLog("allow.call")
	return r
}

// verifCaller: symbolic principal; natively the permissions realise the model's ALLOW answers.
func verifCaller() Caller {
	c := Caller{Principal: audit.Principal{User: nondetString("principal.user"), Hostname: nondetString("principal.host")}}
	if !symbolic() {
		for i := 0; ; i++ {
			r, ok := verifPeekBool("allow", i)
			if !ok {
				break
			}
			if r {
				c.Permissions = append(c.Permissions, acl.Rule{
					Action: []acl.Action{acl.Action(verifPeekString("allow.a", i))},
					Secret: []acl.Secret{acl.Secret(verifPeekString("allow.q", i))},
				})
			}
		}
	}
	return c
}

const (
	opList = iota
	opInfo
	opGet
	opGetConditional
	opGetVersion
	opPut
	opActivate
	opDeleteVersion
	opDelete
)

type verifOpResult struct {
	err      error
	value    *api.SecretValue
	info     *api.SecretInfo
	version  api.SecretVersion
	required acl.Action
	logVer   api.SecretVersion // version the audit record must carry
	wellForm bool
}

func (r verifOpResult) disclosed() bool { return r.value != nil || r.info != nil || r.version != 0 }

// verifCallOp runs one DB method (op is concrete).
func verifCallOp(d *DB, op int, caller Caller, name string, ver api.SecretVersion, val []byte) verifOpResult {
	res := verifOpResult{wellForm: true}
	switch op {
	case opInfo:
		res.required = acl.ActionInfo
		res.info, res.err = d.Info(caller, name)
	case opGet:
		res.required = acl.ActionGet
		res.value, res.err = d.Get(caller, name)
	case opGetConditional:
		res.required = acl.ActionGet
		res.value, res.err = d.GetConditional(caller, name, ver)
	case opGetVersion:
		res.required = acl.ActionGet
		res.logVer = ver
		res.value, res.err = d.GetVersion(caller, name, ver)
	case opPut:
		res.required = acl.ActionPut
		res.wellForm = name != ""
		res.version, res.err = d.Put(caller, name, val)
	case opActivate:
		res.required = acl.ActionActivate
		res.logVer = ver
		res.wellForm = name != ""
		res.err = d.Activate(caller, name, ver)
	case opDeleteVersion:
		res.required = acl.ActionDelete
		res.logVer = ver
		res.err = d.DeleteVersion(caller, name, ver)
	case opDelete:
		res.required = acl.ActionDelete
		res.err = d.Delete(caller, name)
	}
	if verifIllFormedName {
		res.wellForm = false // a name that is not valid UTF-8 is no well-formed request: refused, nothing to record
	}
	return res
}

// set by harnesses that let the name of the call be a Go string that is not valid UTF-8 (see illFormedIf)
var verifIllFormedName bool

// verifC01Run: no effect and no disclosure without ALLOW(required action, name).
func verifC01Run(op int) {
	verifAllowTable = nil
	k := verifSymKV(param("secrets"), param("versions"), "")
	assume(verifKVInv(k))
	assume(verifKVBound(k))
	d := verifDB(k, &verifSink{})
	caller := verifCaller()
	name := nondetString("name")
	ver := api.SecretVersion(nondetU32("version"))
	val := nondetSeq("val")
	pre := snapshot(k.secrets)
	preGen := k.gen
	reads0 := mapReads(k.secrets)

	res := verifCallOp(d, op, caller, name, ver, val)

	reads1 := mapReads(k.secrets)
	a := verifAllowUF(caller.Permissions, res.required, name)
	changed := not(deepEq(k.secrets, pre))
	wrote := ghostCount("disk.write") > 0
	assert("effect-needs-grant", implies(or(changed, wrote, k.gen != preGen), a))
	if res.disclosed() {
		assert("disclosure-needs-grant", a)
	}
	if !a {
		assert("denied-returns-error", res.err != nil)
		assert("denied-no-result", !res.disclosed())
		assert("denied-state-unchanged", and(deepEq(k.secrets, pre), k.gen == preGen, not(wrote)))
		if res.wellForm {
			assert("denied-is-access-denied", errors.Is(res.err, ErrAccessDenied))
		}
		// the refusal carries nothing that depends on whether the secret exists: no not-found / not-changed class mixed in
		assert("denial-independent-of-existence", and(!errors.Is(res.err, ErrNotFound), !errors.Is(res.err, api.ErrValueNotChanged), !errors.Is(res.err, api.ErrNotFound)))
		_, _ = reads0, reads1
		reach("end-denied")
		return
	}
	reach("end-allowed")
}

func verifHarnessC01Info()           { verifC01Run(opInfo) }
func verifHarnessC01Get()            { verifC01Run(opGet) }
func verifHarnessC01GetConditional() { verifC01Run(opGetConditional) }
func verifHarnessC01GetVersion()     { verifC01Run(opGetVersion) }
func verifHarnessC01Put()            { verifC01Run(opPut) }
func verifHarnessC01Activate()       { verifC01Run(opActivate) }
func verifHarnessC01DeleteVersion()  { verifC01Run(opDeleteVersion) }
func verifHarnessC01Delete()         { verifC01Run(opDelete) }

// verifHarnessC01List: list returns exactly the present secrets on which the caller holds info.
func verifHarnessC01List() {
	verifAllowTable = nil
	k := verifSymKV(param("secrets"), param("versions"), "")
	assume(verifKVInv(k))
	d := verifDB(k, &verifSink{})
	caller := verifCaller()
	pre := snapshot(k.secrets)

	infos, err := d.List(caller)

	assert("ok", err == nil)
	assert("state-unchanged", deepEq(k.secrets, pre))
	for _, in := range infos {
		assert("listed-is-allowed", verifAllowUF(caller.Permissions, acl.ActionInfo, in.Name))
		assert("listed-exists", mapHas(pre, in.Name))
	}
	assert("allowed-are-listed", mapAll(pre, func(n string, _ *secret) bool {
		listed := false
		for _, in := range infos {
			listed = or(listed, in.Name == n)
		}
		return implies(verifAllowUF(caller.Permissions, acl.ActionInfo, n), listed)
	}))
	distinct := true
	for i := range infos {
		for j := 0; j < i; j++ {
			distinct = and(distinct, infos[i].Name != infos[j].Name)
		}
	}
	assert("no-duplicates", distinct)
	reach("end")
}

// End to end through the real rule evaluation (no ALLOW abstraction): one rule with a one-star pattern.
func verifHarnessC01RealRule() {
	k := verifSymKV(param("secrets"), param("versions"), "")
	assume(verifKVInv(k))
	d := verifDB(k, &verifSink{})
	p0, p1 := nondetString("piece"), nondetString("piece")
	assume(and(not(strings.Contains(p0, "*")), not(strings.Contains(p1, "*")), strLenLE(p0, 3), strLenLE(p1, 3), validText(p0), validText(p1)))
	pat := p0 + "*" + p1
	registerSplit(pat, "*", p0, p1)
	granted := acl.Action(nondetString("granted.action"))
	caller := Caller{Principal: audit.Principal{User: "u"}, Permissions: acl.Rules{{Action: []acl.Action{granted}, Secret: []acl.Secret{acl.Secret(pat)}}}}
	name := nondetString("name")
	assume(and(strLenLE(name, 8), validText(name)))
	pre := snapshot(k.secrets)

	sv, err := d.Get(caller, name)

	matches := globOracle(name, p0, p1)
	if sv != nil {
		assert("value-only-with-get-on-a-matching-pattern", and(granted == acl.ActionGet, matches))
	}
	if !and(granted == acl.ActionGet, matches) {
		assert("refused", and(sv == nil, errors.Is(err, ErrAccessDenied)))
	}
	assert("state-unchanged", deepEq(k.secrets, pre))
	reach("end")
}
