package db

import (
	"bytes"
	"errors"
	"io"
	"io/fs"
	"os"
	"time"

	"github.com/tink-crypto/tink-go/v2/keyset"
	"github.com/tink-crypto/tink-go/v2/tink"
	tinkpb "github.com/tink-crypto/tink-go/v2/proto/tink_go_proto"
)

// ============ tink model (Dolev-Yao blobs; DESIGN §4.2) ============

// verifKEK is the caller's key-encryption key. It counts its uses.
type verifKEK struct {
	key  uint64
	fail bool // Encrypt/Decrypt may fail (key service outage)
}

func (k *verifKEK) Encrypt(p, ad []byte) ([]byte, error) {
	ghostLog("kek.use")
	if k.fail {
		if nondetBool("kek.fail") {
			return nil, verifErrInjected
		}
	}
	return blobMake("AEAD", k.key, ad, p), nil
}

func (k *verifKEK) Decrypt(c, ad []byte) ([]byte, error) {
	ghostLog("kek.use")
	if k.fail {
		if nondetBool("kek.fail") {
			return nil, verifErrInjected
		}
	}
	return verifAEAD{key: k.key}.Decrypt(c, ad)
}

var (
	verifHandleIDs  = map[*keyset.Handle]uint64{}
	verifNextHandle = uint64(1000)
	verifBinWriters = map[*keyset.BinaryWriter]io.Writer{}
	verifBinReaders = map[*keyset.BinaryReader]io.Reader{}
	verifBufs       = map[*bytes.Buffer][]byte{}
	verifReaders    = map[*bytes.Reader][]byte{}
)

func verifEnvReset() {
	verifHandleIDs = map[*keyset.Handle]uint64{}
	verifNextHandle = 1000
	verifBinWriters = map[*keyset.BinaryWriter]io.Writer{}
	verifBinReaders = map[*keyset.BinaryReader]io.Reader{}
	verifBufs = map[*bytes.Buffer][]byte{}
	verifReaders = map[*bytes.Reader][]byte{}
	verifFS.files = map[string]*verifInode{}
	verifFS.open = map[*os.File]*verifOpenFile{}
	verifFS.tmpSeq = 0
	verifFS.faults = false
	verifFS.crashes = false
	verifFS.livePath = ""
}

func verifHandleWithID(id uint64) *keyset.Handle {
	h := new(keyset.Handle)
	verifHandleIDs[h] = id
	return h
}

func verifStubKeyTemplate() *tinkpb.KeyTemplate { return nil }

func verifStubNewHandle(kt *tinkpb.KeyTemplate) (*keyset.Handle, error) {
	if nondetBool("newhandle.fail") {
		return nil, verifErrInjected
	}
	verifNextHandle++
	return verifHandleWithID(verifNextHandle), nil
}

func verifStubAEADNew(h *keyset.Handle) (tink.AEAD, error) {
	id, ok := verifHandleIDs[h]
	if !ok {
		return nil, errors.New("verif: unknown keyset handle")
	}
	return verifAEAD{key: id, failTag: verifSaveFailTag}, nil
}

var verifSaveFailTag string

func verifStubNewBinaryWriter(w io.Writer) *keyset.BinaryWriter {
	bw := new(keyset.BinaryWriter)
	verifBinWriters[bw] = w
	return bw
}

func verifStubNewBinaryReader(r io.Reader) *keyset.BinaryReader {
	br := new(keyset.BinaryReader)
	verifBinReaders[br] = r
	return br
}

func verifStubWriteWithAD(h *keyset.Handle, w keyset.Writer, masterKey tink.AEAD, ad []byte) error {
	bw, ok := w.(*keyset.BinaryWriter)
	if !ok {
		return errors.New("verif: unmodelled keyset.Writer")
	}
	ct, err := masterKey.Encrypt(blobMake("KEYSET", verifHandleIDs[h]), ad)
	if err != nil {
		return err
	}
	_, err = verifBinWriters[bw].Write(ct)
	return err
}

func verifStubReadWithAD(r keyset.Reader, masterKey tink.AEAD, ad []byte) (*keyset.Handle, error) {
	br, ok := r.(*keyset.BinaryReader)
	if !ok {
		return nil, errors.New("verif: unmodelled keyset.Reader")
	}
	rd, ok := verifBinReaders[br].(*bytes.Reader)
	if !ok {
		return nil, errors.New("verif: unmodelled io.Reader")
	}
	pt, err := masterKey.Decrypt(verifReaders[rd], ad)
	if err != nil {
		return nil, err
	}
	parts, ok := blobOpen(pt, "KEYSET")
	if !ok {
		return nil, errors.New("verif: not a keyset")
	}
	return verifHandleWithID(blobPartU64(parts[0])), nil
}

func verifStubBytesNewReader(b []byte) *bytes.Reader {
	r := new(bytes.Reader)
	verifReaders[r] = b
	return r
}

func verifStubBufWrite(b *bytes.Buffer, p []byte) (int, error) {
	verifBufs[b] = p
	return len(p), nil
}

func verifStubBufBytes(b *bytes.Buffer) []byte { return verifBufs[b] }

// ============ file-system model (DESIGN §4.3) ============

type verifInode struct {
	content   []byte
	complete  bool // content is exactly what one Write call was given (no partial write)
	durable   []byte
	durableOK bool // durable content is a complete document (synced after a complete write), or the old file
	mode      os.FileMode
	written   bool
	dir       bool
}

type verifOpenFile struct {
	name   string
	ino    *verifInode
	closed bool
}

var verifFS struct {
	files    map[string]*verifInode
	open     map[*os.File]*verifOpenFile
	tmpSeq   int
	faults   bool // every call may fail
	crashes  bool // the process may die before any call
	livePath string
	onCrash  func()
}

type verifCrash struct{}

// verifFSStep: before every FS call the process may be killed.
func verifFSStep(what string) {
	ghostLog("fs.call")
	if verifFS.crashes {
		if nondetBool("crash.before." + what) {
			ghostLog("fs.crash")
			panic(verifCrash{})
		}
	}
}

func verifFSFail(what string) bool {
	if verifFS.faults {
		if nondetBool("fault." + what) {
			ghostLog("fs.fault")
			return true
		}
	}
	return false
}

type verifFileInfo struct {
	mode os.FileMode
}

func (fi verifFileInfo) Name() string       { return "verif" }
func (fi verifFileInfo) Size() int64        { return 0 }
func (fi verifFileInfo) Mode() fs.FileMode  { return fi.mode }
func (fi verifFileInfo) ModTime() time.Time { return time.Time{} }
func (fi verifFileInfo) IsDir() bool        { return fi.mode.IsDir() }
func (fi verifFileInfo) Sys() any           { return nil }

func verifStubStat(name string) (os.FileInfo, error) {
	verifFSStep("stat")
	if verifFSFail("stat") {
		return nil, verifErrInjected
	}
	ino := verifFS.files[name]
	if ino == nil {
		return nil, fs.ErrNotExist
	}
	if ino.dir {
		return verifFileInfo{mode: fs.ModeDir | 0700}, nil
	}
	return verifFileInfo{mode: ino.mode}, nil
}

func verifStubReadFile(name string) ([]byte, error) {
	ghostLog("fs.read")
	if verifFSFail("readfile") {
		return nil, verifErrInjected
	}
	ino := verifFS.files[name]
	if ino == nil {
		return nil, fs.ErrNotExist
	}
	return ino.content, nil
}

func verifStubCreateTemp(dir, pattern string) (*os.File, error) {
	verifFSStep("createtemp")
	if verifFSFail("createtemp") {
		return nil, verifErrInjected
	}
	verifFS.tmpSeq++
	name := dir + "/" + pattern + "." + string(rune('0'+verifFS.tmpSeq))
	ino := &verifInode{mode: 0600}
	verifFS.files[name] = ino
	f := new(os.File)
	verifFS.open[f] = &verifOpenFile{name: name, ino: ino}
	assert("temp-in-same-directory", dir == verifDirOf(verifFS.livePath))
	return f, nil
}

func verifDirOf(p string) string {
	for i := len(p) - 1; i >= 0; i-- {
		if p[i] == '/' {
			if i == 0 {
				return "/"
			}
			return p[:i]
		}
	}
	return "."
}

func verifStubFileName(f *os.File) string { return verifFS.open[f].name }

func verifStubFileWrite(f *os.File, p []byte) (int, error) {
	verifFSStep("write")
	of := verifFS.open[f]
	assert("secret-bearing-file-owner-only", of.ino.mode&0077 == 0)
	if verifFSFail("write") {
		// an arbitrary prefix may have reached the file
		of.ino.content, of.ino.complete, of.ino.written = nil, false, true
		return 0, verifErrInjected
	}
	of.ino.complete = !of.ino.written
	of.ino.content = p
	of.ino.written = true
	ghostLog("fs.write")
	return len(p), nil
}

func verifStubFileChmod(f *os.File, perm os.FileMode) error {
	verifFSStep("chmod")
	if verifFSFail("chmod") {
		return verifErrInjected
	}
	verifFS.open[f].ino.mode = perm
	return nil
}

func verifStubFileSync(f *os.File) error {
	verifFSStep("sync")
	if verifFSFail("sync") {
		return verifErrInjected
	}
	ino := verifFS.open[f].ino
	ino.durable, ino.durableOK = ino.content, ino.complete
	ghostLog("fs.sync")
	return nil
}

func verifStubFileClose(f *os.File) error {
	verifFSStep("close")
	of := verifFS.open[f]
	of.closed = true
	if verifFSFail("close") {
		return verifErrInjected
	}
	return nil
}

func verifStubRemove(name string) error {
	verifFSStep("remove")
	if verifFSFail("remove") {
		return verifErrInjected
	}
	assert("live-file-never-removed", name != verifFS.livePath)
	delete(verifFS.files, name)
	return nil
}

func verifStubRename(oldpath, newpath string) error {
	verifFSStep("rename")
	if verifFSFail("rename") {
		return verifErrInjected
	}
	ino := verifFS.files[oldpath]
	if ino == nil {
		return fs.ErrNotExist
	}
	if newpath == verifFS.livePath {
		// the document that becomes the live file must be complete and already on stable storage
		assert("rename-after-complete-write", and(ino.complete, ino.written))
		assert("rename-after-fsync", and(ino.durableOK, sameBacking(ino.durable, ino.content)))
		assert("live-file-owner-only", ino.mode&0077 == 0)
	}
	verifFS.files[newpath] = ino
	delete(verifFS.files, oldpath)
	ghostLog("fs.rename")
	return nil
}

// Writing a path in place (truncate, then write) is exactly what must never happen to the live file.
func verifStubOSWriteFile(name string, data []byte, perm os.FileMode) error {
	verifFSStep("oswritefile")
	assert("live-file-never-written-in-place", name != verifFS.livePath)
	ino := verifFS.files[name]
	if ino == nil {
		ino = &verifInode{mode: perm}
		verifFS.files[name] = ino
	}
	ino.content, ino.complete, ino.written = data, true, true
	return nil
}

var verifOpenFlags struct {
	name string
	flag int
	perm os.FileMode
	n    int
}

func verifStubOpenFile(name string, flag int, perm os.FileMode) (*os.File, error) {
	verifFSStep("openfile")
	if flag&(os.O_WRONLY|os.O_RDWR|os.O_TRUNC) != 0 {
		assert("live-file-never-opened-for-writing", name != verifFS.livePath)
	}
	verifOpenFlags.name, verifOpenFlags.flag, verifOpenFlags.perm = name, flag, perm
	verifOpenFlags.n++
	if verifFSFail("openfile") {
		return nil, verifErrInjected
	}
	ino := verifFS.files[name]
	if ino == nil {
		ino = &verifInode{mode: perm}
		verifFS.files[name] = ino
	}
	f := new(os.File)
	verifFS.open[f] = &verifOpenFile{name: name, ino: ino}
	return f, nil
}
