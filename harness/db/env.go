package db

import (
	"bytes"
	"errors"
	"io"

	"github.com/tink-crypto/tink-go/v2/keyset"
	tinkpb "github.com/tink-crypto/tink-go/v2/proto/tink_go_proto"
	"github.com/tink-crypto/tink-go/v2/tink"
)

// ============ tink model (Dolev-Yao blobs; DESIGN §4.2) ============

// verifKEK is the caller's key-encryption key. It counts its uses.
type verifKEK struct {
	key  uint64
	fail bool // Encrypt/Decrypt may fail (key service outage)
}

func (k *verifKEK) Encrypt(p, ad []byte) ([]byte, error) {
	ghostLog("kek.use")
	if k.fail {
		if nondetBool("kek.fail") {
			return nil, verifErrInjected
		}
	}
	return blobMake("AEAD", k.key, ad, p), nil
}

func (k *verifKEK) Decrypt(c, ad []byte) ([]byte, error) {
	ghostLog("kek.use")
	if k.fail {
		if nondetBool("kek.fail") {
			return nil, verifErrInjected
		}
	}
	return verifAEAD{key: k.key}.Decrypt(c, ad)
}

var (
	verifHandleIDs  = map[*keyset.Handle]uint64{}
	verifNextHandle = uint64(1000)
	verifBinWriters = map[*keyset.BinaryWriter]io.Writer{}
	verifBinReaders = map[*keyset.BinaryReader]io.Reader{}
	verifBufs       = map[*bytes.Buffer][]byte{}
	verifReaders    = map[*bytes.Reader][]byte{}
)

func verifEnvReset() {
	verifHandleIDs = map[*keyset.Handle]uint64{}
	verifNextHandle = 1000
	verifBinWriters = map[*keyset.BinaryWriter]io.Writer{}
	verifBinReaders = map[*keyset.BinaryReader]io.Reader{}
	verifBufs = map[*bytes.Buffer][]byte{}
	verifReaders = map[*bytes.Reader][]byte{}
	verifFSReset()
}

func verifHandleWithID(id uint64) *keyset.Handle {
	h := new(keyset.Handle)
	verifHandleIDs[h] = id
	return h
}

func verifStubKeyTemplate() *tinkpb.KeyTemplate { return nil }

func verifStubNewHandle(kt *tinkpb.KeyTemplate) (*keyset.Handle, error) {
	if nondetBool("newhandle.fail") {
		return nil, verifErrInjected
	}
	verifNextHandle++
	return verifHandleWithID(verifNextHandle), nil
}

func verifStubAEADNew(h *keyset.Handle) (tink.AEAD, error) {
	id, ok := verifHandleIDs[h]
	if !ok {
		return nil, errors.New("verif: unknown keyset handle")
	}
	return verifAEAD{key: id, failTag: verifSaveFailTag}, nil
}

var verifSaveFailTag string

func verifStubNewBinaryWriter(w io.Writer) *keyset.BinaryWriter {
	bw := new(keyset.BinaryWriter)
	verifBinWriters[bw] = w
	return bw
}

func verifStubNewBinaryReader(r io.Reader) *keyset.BinaryReader {
	br := new(keyset.BinaryReader)
	verifBinReaders[br] = r
	return br
}

func verifStubWriteWithAD(h *keyset.Handle, w keyset.Writer, masterKey tink.AEAD, ad []byte) error {
	bw, ok := w.(*keyset.BinaryWriter)
	if !ok {
		return errors.New("verif: unmodelled keyset.Writer")
	}
	ct, err := masterKey.Encrypt(blobMake("KEYSET", verifHandleIDs[h]), ad)
	if err != nil {
		return err
	}
	_, err = verifBinWriters[bw].Write(ct)
	return err
}

func verifStubReadWithAD(r keyset.Reader, masterKey tink.AEAD, ad []byte) (*keyset.Handle, error) {
	br, ok := r.(*keyset.BinaryReader)
	if !ok {
		return nil, errors.New("verif: unmodelled keyset.Reader")
	}
	rd, ok := verifBinReaders[br].(*bytes.Reader)
	if !ok {
		return nil, errors.New("verif: unmodelled io.Reader")
	}
	pt, err := masterKey.Decrypt(verifReaders[rd], ad)
	if err != nil {
		return nil, err
	}
	parts, ok := blobOpen(pt, "KEYSET")
	if !ok {
		return nil, errors.New("verif: not a keyset")
	}
	return verifHandleWithID(blobPartU64(parts[0])), nil
}

func verifStubBytesNewReader(b []byte) *bytes.Reader {
	r := new(bytes.Reader)
	verifReaders[r] = b
	return r
}

func verifStubBufWrite(b *bytes.Buffer, p []byte) (int, error) {
	verifBufs[b] = p
	return len(p), nil
}

func verifStubBufBytes(b *bytes.Buffer) []byte { return verifBufs[b] }
