package db

import (
	"errors"
	"os"
	"path/filepath"
	"strings"

	"github.com/tailscale/setec/acl"
	"github.com/tailscale/setec/audit"
	"github.com/tailscale/setec/types/api"
)

// ---------- environment objects shared by the db harnesses ----------

var verifErrInjected = errors.New("verif: injected failure")

// verifAEAD is the data-encryption cipher: blob algebra under gosym, a
// reversible envelope natively (like tink's test-only dummy AEAD).
type verifAEAD struct {
	key     uint64
	failTag string // non-empty: Encrypt may fail (nondet)
}

func (a verifAEAD) Encrypt(p, ad []byte) ([]byte, error) {
	if a.failTag != "" {
		if nondetBool(a.failTag) {
			ghostLog("aead.encrypt.failed")
			return nil, verifErrInjected
		}
	}
	ghostLog("aead.encrypt")
	return blobMake("AEAD", a.key, ad, p), nil
}

func (a verifAEAD) Decrypt(c, ad []byte) ([]byte, error) {
	parts, ok := blobOpen(c, "AEAD")
	if !ok {
		return nil, errors.New("verifAEAD: not a ciphertext")
	}
	if blobPartU64(parts[0]) != a.key {
		return nil, errors.New("verifAEAD: wrong key")
	}
	if !bytesEq(blobPartBytes(parts[1]), ad) {
		return nil, errors.New("verifAEAD: wrong associated data")
	}
	return blobPartBytes(parts[2]), nil
}

// verifSink is the audit sink. failAt < 0: never fails.
type verifSink struct {
	mayFail bool
	writes  [][]byte
	synced  int
}

func (s *verifSink) Write(p []byte) (int, error) {
	if s.mayFail {
		if nondetBool("sink.write.fail") {
			ghostLog("sink.write.failed")
			return 0, verifErrInjected
		}
	}
	verifAuditObserveWrite()
	s.writes = append(s.writes, append([]byte(nil), p...)) // the encoder reuses its buffer
	ghostLog("sink.write")
	return len(p), nil
}

func (s *verifSink) Sync() error {
	if s.mayFail {
		if nondetBool("sink.sync.fail") {
			ghostLog("sink.sync.failed")
			return verifErrInjected
		}
	}
	s.synced = len(s.writes)
	ghostLog("sink.sync")
	verifInterleaveHook()
	return nil
}

// ---------- symbolic pre-states ----------

func verifSymSecret(nver int) *secret {
	s := &secret{Versions: map[api.SecretVersion]byteString{}}
	for i := 0; i < nver; i++ {
		mapPutIf(s.Versions, api.SecretVersion(nondetU32("ver.k")), byteString(nondetSeq("ver.v")), nondetBool("ver.p"))
	}
	s.ActiveVersion = api.SecretVersion(nondetU32("active"))
	s.LatestVersion = api.SecretVersion(nondetU32("latest"))
	return s
}

func verifSymKV(nsec, nver int, saveFailTag string) *kv {
	k := &kv{
		path:      verifDBPath(nondetBool("writefile.fail")),
		secrets:   map[string]*secret{},
		dekCipher: verifAEAD{key: 7, failTag: saveFailTag},
		dekRaw:    []byte("wrapped-dek"),
		gen:       nondetU64("gen"),
	}
	for i := 0; i < nsec; i++ {
		mapPutIf(k.secrets, nondetString("sec.name"), verifSymSecret(nver), nondetBool("sec.p"))
	}
	return k
}

// verifSecretInv is the representation invariant of one secret (DESIGN §7 C02).
func verifSecretInv(s *secret) bool {
	if s == nil || s.Versions == nil {
		return false
	}
	latest := s.LatestVersion
	keysOK := mapAll(s.Versions, func(k api.SecretVersion, _ byteString) bool {
		return and(k >= 1, k <= latest)
	})
	return and(keysOK, mapHas(s.Versions, s.ActiveVersion))
}

// verifKVBound is the stated bound of the claim (not part of the invariant):
// no version counter has reached 2^32-1, where LatestVersion++ would wrap.
func verifKVBound(k *kv) bool {
	return mapAll(k.secrets, func(_ string, s *secret) bool { return s.LatestVersion < 0xFFFFFFFF })
}

func verifKVInv(k *kv) bool {
	return mapAll(k.secrets, func(name string, s *secret) bool {
		return and(name != "", not(strings.HasPrefix(name, configPrefix)), verifSecretInv(s))
	})
}

var verifAllActions = []acl.Action{acl.ActionGet, acl.ActionInfo, acl.ActionPut, acl.ActionActivate, acl.ActionDelete}

func verifSuperuser() Caller {
	return Caller{
		Principal:   audit.Principal{User: "verif@example.com"},
		Permissions: acl.Rules{{Action: verifAllActions, Secret: []acl.Secret{"*"}}},
	}
}

// verifAllowAll replaces acl.Rules.Allow in harnesses where every call is authorized.
func verifAllowAll(rr acl.Rules, action acl.Action, secret string) bool { return true }

func verifDB(k *kv, sink *verifSink) *DB {
	return &DB{kv: k, auditLog: audit.New(sink)}
}

func hasConfigPrefix(name string) bool { return strings.HasPrefix(name, configPrefix) }

// verifDisk is the ghost content of the database file (blob) after the last successful write.
var verifDisk []byte
var verifDiskWrites int

// verifAtomicWrite replaces tailscale.com/atomicfile.WriteFile where the file
// system itself is not the subject (C04 interprets the real one).
func verifAtomicWrite(filename string, data []byte, perm os.FileMode) error {
	if verifWriteFails {
		ghostLog("disk.write.failed")
		return verifErrInjected
	}
	verifAuditObserveSave()
	verifC14ObserveSave()
	verifDisk = data
	verifDiskWrites++
	ghostLog("disk.write")
	return nil
}

var verifWriteFails bool

// verifDBPath picks the database path. Natively an injected write failure is
// realised by a path inside a directory that does not exist.
func verifDBPath(fail bool) string {
	verifWriteFails = fail
	if symbolic() {
		return "verif.db"
	}
	if fail {
		return filepath.Join(os.Getenv("VERIF_TMP"), "no-such-dir", "verif.db")
	}
	return filepath.Join(os.Getenv("VERIF_TMP"), "verif.db")
}

// verifFaulted reports whether an injected save fault fired during the call.
func verifFaulted() bool {
	if !symbolic() {
		// natively the write fault is realised by an unwritable path and is not seen by the ghost counters
		return verifWriteFails || ghostCount("aead.encrypt.failed") > 0
	}
	return ghostCount("disk.write.failed")+ghostCount("aead.encrypt.failed") > 0
}
