package db

import (
	"encoding/json"
	"os"

	"tailscale.com/atomicfile"

	"github.com/tailscale/setec/audit"
	"github.com/tailscale/setec/types/api"
)

// Pinned constants of the documented schema-version-1 layout (db/kv.go:24-70).
// They are deliberately NOT taken from the code under test.
const (
	verifPinContextDEK = "setec DEK v1"
	verifPinContextDB  = "setec database v1"
)

const verifDEKID = 4242
const verifKEKID = 99

// verifSymKVOnDisk builds an arbitrary valid kv whose key material is wired
// like a database that was opened with kek, and saves it once (fault-free) so
// that "disk = encode(memory)" holds before the step under test.
func verifSymKVOnDisk(kek *verifKEK, nsec, nver int) *kv {
	k := verifSymKV(nsec, nver, "")
	k.path = "/state/verif.db"
	verifFS.livePath = k.path
	if nondetBool("dbfile.preexists") {
		// a file is already there (an earlier run, a restore, an operator's copy) with whatever mode it was given
		verifFS.files[k.path] = &verifInode{complete: true, durableOK: true, mode: os.FileMode(nondetU32("dbfile.mode") & 0777)}
	}
	dek := verifHandleWithID(verifDEKID)
	k.dek = dek
	k.dekCipher = verifAEAD{key: verifDEKID}
	k.dekRaw = blobMake("AEAD", uint64(verifKEKID), []byte(verifPinContextDEK), blobMake("KEYSET", uint64(verifDEKID)))
	k.kekCipher = kek
	return k
}

// verifDiskWriteModel: atomicfile.WriteFile replaced by its contract (atomic; may fail leaving the file untouched).
func verifDiskWriteModel(filename string, data []byte, perm os.FileMode) error {
	verifAuditObserveSave()
	verifC14ObserveSave()
	assert("write-targets-db-path", filename == verifFS.livePath)
	assert("db-file-owner-only", perm&0077 == 0)
	if verifFSFail("atomicwrite") {
		ghostLog("disk.write.failed")
		return verifErrInjected
	}
	// a NEW file takes the name (rename): other names of the old file (hard links) keep the old contents
	ino := &verifInode{}
	verifFS.files[filename] = ino
	ino.content, ino.complete, ino.durable, ino.durableOK, ino.mode, ino.written = data, true, data, true, perm, true
	ghostLog("disk.write")
	return nil
}

func verifC03Step(op int) {
	verifEnvReset()
	verifAllowTable = nil
	kek := &verifKEK{key: verifKEKID}
	k := verifSymKVOnDisk(kek, param("secrets"), param("versions"))
	assume(verifKVInv(k))
	assume(verifKVBound(k))
	assume(k.save() == nil)
	kekUses0 := ghostCount("kek.use")
	writes0 := ghostCount("disk.write")
	d := verifDB(k, &verifSink{})
	name := nondetString("name")
	// the Go API takes any string: the name of this call may be one that is not valid UTF-8 (names already stored are
	// well-formed: they came through earlier calls, which this step covers inductively)
	illFormedIf(name, nondetBool("name.is.not.valid.utf8"))
	ver := api.SecretVersion(nondetU32("version"))
	val := nondetSeq("val")
	pre := snapshot(k.secrets)
	preDisk := verifFS.files[k.path].content

	// the step under test, with save faults enabled
	verifFS.faults = true
	k.dekCipher = verifAEAD{key: verifDEKID, failTag: "save.fail"}
	res := verifCallOp(d, op, verifSuperuser(), name, ver, val)
	verifFS.faults = false

	assert("kek-not-consulted-by-operation", ghostCount("kek.use") == kekUses0)
	changed := not(deepEq(k.secrets, pre))
	if res.err != nil {
		assert("failed-step-invisible-in-memory", not(changed))
		assert("failed-step-invisible-on-disk", sameBacking(verifFS.files[k.path].content, preDisk))
	} else {
		assert("acknowledged-change-was-written", implies(changed, ghostCount("disk.write") == writes0+1))
	}

	// restart: reopen the file with the same key; must equal the live state exactly
	reads0 := ghostCount("disk.write")
	// between the runs the file may have been restored from a backup or copied by an operator: any mode bits
	restoredMode := os.FileMode(nondetU32("mode.at.restart") & 0777)
	verifFS.files[k.path].mode = restoredMode
	atRestart := verifFS.files[k.path]
	k2, err := openOrCreateKV(k.path, kek)
	assert("opening-never-modifies-the-file", and(verifFS.files[k.path] == atRestart, atRestart.mode == restoredMode, ghostCount("fs.write") == 0, ghostCount("fs.rename") == 0))
	assert("reopen-ok", and(err == nil, k2 != nil))
	assert("reopen-state-equals-acknowledged-state", deepEq(k2.secrets, k.secrets))
	assert("reopen-does-not-write", ghostCount("disk.write") == reads0)
	assert("reopen-gen-1", k2.gen == 1)
	assert("reopen-consults-kek-once", ghostCount("kek.use") == kekUses0+1)
	reach("end")
}

func verifHarnessC03Put()           { verifC03Step(opPut) }
func verifHarnessC03Activate()      { verifC03Step(opActivate) }
func verifHarnessC03DeleteVersion() { verifC03Step(opDeleteVersion) }
func verifHarnessC03Delete()        { verifC03Step(opDelete) }
func verifHarnessC03Get()           { verifC03Step(opGet) }

// ---- schema v1 layout pin: a document built from the documented layout opens with identical contents ----

type verifV1Bytes string

func (b verifV1Bytes) MarshalText() ([]byte, error)  { return []byte(b), nil } // encoding checked in C18
func (b *verifV1Bytes) UnmarshalText(t []byte) error { *b = verifV1Bytes(t); return nil }

type verifV1Secret struct {
	Versions      map[api.SecretVersion]verifV1Bytes
	ActiveVersion api.SecretVersion
	LatestVersion api.SecretVersion
}
type verifV1Persist struct {
	Secrets map[string]*verifV1Secret
}
type verifV1Wrapped struct {
	Version uint32
	DEK     []byte
	DB      []byte
}

func verifHarnessC03SchemaV1() {
	verifEnvReset()
	kek := &verifKEK{key: verifKEKID}
	// arbitrary contents in the pinned layout
	doc := verifV1Persist{Secrets: map[string]*verifV1Secret{}}
	for i := 0; i < param("secrets"); i++ {
		s := &verifV1Secret{Versions: map[api.SecretVersion]verifV1Bytes{}}
		for j := 0; j < param("versions"); j++ {
			mapPutIf(s.Versions, api.SecretVersion(nondetU32("v1.k")), verifV1Bytes(nondetSeq("v1.v")), nondetBool("v1.p"))
		}
		s.ActiveVersion = api.SecretVersion(nondetU32("v1.active"))
		s.LatestVersion = api.SecretVersion(nondetU32("v1.latest"))
		mapPutIf(doc.Secrets, nondetString("v1.name"), s, nondetBool("v1.sp"))
	}
	schema := nondetU32("v1.schema")
	clear, _ := json.Marshal(doc)
	file, _ := json.Marshal(verifV1Wrapped{
		Version: schema,
		DEK:     blobMake("AEAD", uint64(verifKEKID), []byte(verifPinContextDEK), blobMake("KEYSET", uint64(verifDEKID))),
		DB:      blobMake("AEAD", uint64(verifDEKID), []byte(verifPinContextDB), clear),
	})
	path := "/state/old.db"
	verifFS.livePath = path
	fileMode := os.FileMode(nondetU32("old.file.mode") & 0777) // written by an older release, restored, copied: any mode bits
	oldFile := &verifInode{content: file, complete: true, durable: file, durableOK: true, mode: fileMode}
	verifFS.files[path] = oldFile

	k, err := openOrCreateKV(path, kek)

	assert("opening-never-modifies-the-file", and(ghostCount("disk.write") == 0, ghostCount("fs.write") == 0, ghostCount("fs.rename") == 0,
		verifFS.files[path] == oldFile, oldFile.mode == fileMode, sameBacking(verifFS.files[path].content, file)))
	if schema != 1 {
		assert("other-schema-versions-rejected", and(err != nil, k == nil))
		reach("end-other-version")
		return
	}
	assert("v1-opens", and(err == nil, k != nil))
	// identical contents: compare through a re-encoding into the pinned types
	got := verifV1Persist{}
	enc, _ := json.Marshal(persist{Secrets: k.secrets})
	assert("reencode", jsonBlobAs(enc, &got))
	assert("v1-contents-identical", deepEq(got, doc))
	reach("end-v1")
}

// ---------- C04 ----------

// atomicfile.WriteFile (real code) over the FS model with faults and crashes at every call.
func verifHarnessC04WriteFile() {
	verifEnvReset()
	path := "/state/verif.db"
	verifFS.livePath = path
	exists := nondetBool("live.exists")
	old := nondetSeq("old.content")
	var oldIno *verifInode
	if exists {
		oldIno = &verifInode{content: old, complete: true, durable: old, durableOK: true, mode: os.FileMode(nondetU32("old.mode") & 0777), written: true}
		verifFS.files[path] = oldIno
	}
	data := nondetSeq("new.content")
	verifFS.faults, verifFS.crashes = true, true
	crashed := false
	var err error
	func() {
		defer func() {
			if r := recover(); r != nil {
				if _, ok := r.(verifCrash); ok {
					crashed = true
					return
				}
				panic(r)
			}
		}()
		err = atomicfile.WriteFile(path, data, 0600)
	}()
	verifFS.faults, verifFS.crashes = false, false
	live := verifFS.files[path]
	if crashed {
		// what is on stable storage under the live name is the complete old or the complete new document
		if exists {
			assert("crash-live-still-present", live != nil)
		}
		if live != nil {
			assert("crash-old-or-new", and(live.durableOK, or(sameBacking(live.durable, old), sameBacking(live.durable, data))))
		}
		reach("end-crash")
		return
	}
	if err != nil {
		assert("error-leaves-live-untouched", live == oldIno)
		if live != nil {
			assert("error-content-untouched", and(sameBacking(live.content, old), sameBacking(live.durable, old)))
		}
		reach("end-error")
		return
	}
	assert("ok-live-is-new", and(live != nil, live != oldIno))
	assert("ok-content", and(sameBacking(live.content, data), live.durableOK, sameBacking(live.durable, data)))
	assert("ok-mode", live.mode == 0600)
	reach("end-ok")
}

// kv-level: a failing save leaves memory and generation untouched, and the same call then succeeds.
func verifC04Step(op int) {
	verifEnvReset()
	kek := &verifKEK{key: verifKEKID}
	k := verifSymKVOnDisk(kek, param("secrets"), param("versions"))
	assume(verifKVInv(k))
	assume(verifKVBound(k))
	assume(k.save() == nil)
	d := verifDB(k, &verifSink{})
	name := nondetString("name")
	ver := api.SecretVersion(nondetU32("version"))
	val := nondetSeq("val")
	pre := snapshot(k.secrets)
	preGen := k.gen
	preDisk := verifFS.files[k.path].content

	verifFS.faults = true
	k.dekCipher = verifAEAD{key: verifDEKID, failTag: "save.fail"}
	res := verifCallOp(d, op, verifSuperuser(), name, ver, val)
	verifFS.faults = false
	k.dekCipher = verifAEAD{key: verifDEKID}

	faulted := ghostCount("fs.fault")+ghostCount("aead.encrypt.failed") > 0
	assert("gen-advances-iff-file-replaced", k.gen == preGen+uint64(ghostCount("disk.write")-1))
	if !faulted {
		reach("end-no-fault")
		return
	}
	assert("fault-reported", res.err != nil)
	assert("fault-memory-rolled-back", deepEq(k.secrets, pre))
	assert("fault-gen-unchanged", k.gen == preGen)
	assert("fault-file-unchanged", sameBacking(verifFS.files[k.path].content, preDisk))
	// later calls succeed normally: repeat the same call without faults
	res2 := verifCallOp(d, op, verifSuperuser(), name, ver, val)
	assert("retry-behaves-normally", verifRetryOK(op, pre, k, name, ver, val, res2))
	reach("end-fault")
}

func verifRetryOK(op int, pre map[string]*secret, k *kv, name string, ver api.SecretVersion, val []byte, res verifOpResult) bool {
	ps := pre[name]
	switch op {
	case opPut:
		if res.err != nil {
			return false
		}
		s := k.secrets[name]
		if s == nil {
			return false
		}
		return and(mapHas(s.Versions, res.version), s.Versions[res.version] == byteString(val))
	case opActivate:
		if res.err != nil {
			return false
		}
		return k.secrets[name].ActiveVersion == ver
	case opDeleteVersion:
		if res.err != nil {
			return false
		}
		return not(mapHas(k.secrets[name].Versions, ver))
	case opDelete:
		_ = ps
		return and(res.err == nil, not(mapHas(k.secrets, name)))
	}
	return true
}

func verifHarnessC04Put()           { verifC04Step(opPut) }
func verifHarnessC04Activate()      { verifC04Step(opActivate) }
func verifHarnessC04DeleteVersion() { verifC04Step(opDeleteVersion) }
func verifHarnessC04Delete()        { verifC04Step(opDelete) }

// database creation: any failing step reports an error and never leaves a partial live file
func verifHarnessC04Create() {
	verifEnvReset()
	kek := &verifKEK{key: verifKEKID, fail: true}
	path := "/state/new.db"
	verifFS.livePath = path
	verifFS.faults = true
	verifSaveFailTag = "save.fail"
	k, err := openOrCreateKV(path, kek)
	verifSaveFailTag = ""
	verifFS.faults = false
	live := verifFS.files[path]
	if err != nil {
		assert("create-error-no-kv", k == nil)
		assert("create-error-no-file", live == nil)
		reach("end-error")
		return
	}
	assert("create-ok", and(k != nil, live != nil))
	assert("create-file-complete", and(live.complete, live.durableOK, live.mode&0077 == 0))
	assert("create-gen-1", k.gen == 1)
	assert("create-kek-used-once", ghostCount("kek.use") == 1)
	k2, err2 := openOrCreateKV(path, &verifKEK{key: verifKEKID})
	assert("create-then-open", and(err2 == nil, k2 != nil))
	assert("create-then-open-empty", len(k2.secrets) == 0)
	reach("end-ok")
}

// ---------- C05 ----------

// Everything the database writes is {Version, DEK: AEAD⟨kek⟩, DB: AEAD⟨dek⟩}: no name or value outside an AEAD node.
func verifHarnessC05Confidential() {
	verifEnvReset()
	kek := &verifKEK{key: verifKEKID}
	k := verifSymKVOnDisk(kek, param("secrets"), param("versions"))
	assume(verifKVInv(k))
	assume(k.save() == nil)
	file := verifFS.files[k.path].content
	assert("wrapper-fields-as-documented", jsonBlobKeys(file) == "DB,DEK,Version")
	assert("no-cleartext-outside-aead", blobClearTerms(file) == 0)
	var w verifV1Wrapped
	assert("wrapper-decodes", jsonBlobAs(file, &w))
	assert("schema-version-1", w.Version == 1)
	assert("db-is-ciphertext-under-dek", blobIs(w.DB, "AEAD"))
	assert("dek-is-ciphertext-under-kek", blobIs(w.DEK, "AEAD"))
	parts, _ := blobOpen(w.DB, "AEAD")
	assert("db-context-pinned", and(blobPartU64(parts[0]) == verifDEKID, bytesEq(blobPartBytes(parts[1]), []byte(verifPinContextDB))))
	assert("file-owner-only", verifFS.files[k.path].mode&0077 == 0)
	reach("end")
}

// Opening with a foreign key, or a file spliced from two databases, or a non-database blob: error, never different contents.
func verifHarnessC05Tamper() {
	verifEnvReset()
	kek := &verifKEK{key: verifKEKID}
	k := verifSymKVOnDisk(kek, param("secrets"), param("versions"))
	assume(verifKVInv(k))
	assume(k.save() == nil)
	if nondetBool("saved.twice") {
		// the file has a history: an earlier generation was written before the current one (whatever else save leaves
		// in the directory -- backups, previous generations -- stays where it is when the live file is damaged)
		mapPutIf(k.secrets, nondetString("later.name"), verifSymSecret(1), true)
		assume(verifKVInv(k))
		assume(k.save() == nil)
	}
	var a verifV1Wrapped
	assume(jsonBlobAs(verifFS.files[k.path].content, &a))
	mode := nondetChoice("tamper", 8)
	useKEK := kek
	w := a
	switch mode {
	case 0: // foreign key-encryption key
		useKEK = &verifKEK{key: 12345}
	case 1: // DB of another database (different data key), own DEK
		w.DB = blobMake("AEAD", uint64(777), []byte(verifPinContextDB), blobMake("JSON-OTHER"))
	case 2: // DEK of another database, own DB
		w.DEK = blobMake("AEAD", uint64(verifKEKID), []byte(verifPinContextDEK), blobMake("KEYSET", uint64(777)))
	case 3: // ciphertext moved between contexts: DB bytes re-labelled with the DEK context
		w.DB = blobMake("AEAD", uint64(verifDEKID), []byte(verifPinContextDEK), blobMake("JSON-OTHER"))
	case 4: // corrupted ciphertext: arbitrary bytes
		w.DB = nondetSeq("garbage")
	case 5: // corrupted wrapped key
		w.DEK = nondetSeq("garbage")
	}
	file, _ := json.Marshal(w)
	switch mode {
	case 6: // truncated to nothing: the file exists but is empty
		file = []byte{}
	case 7: // the whole file replaced by arbitrary bytes
		file = nondetSeq("garbage.file")
	}
	verifFS.files[k.path].content = file
	writes0 := ghostCount("disk.write")
	k2, err := openOrCreateKV(k.path, useKEK)
	assert("tampered-open-fails", and(err != nil, k2 == nil))
	assert("tampered-file-is-not-replaced", and(ghostCount("disk.write") == writes0, sameBacking(verifFS.files[k.path].content, file) || len(file) == 0))
	reach("end")
}

// The key-encryption key is consulted exactly once at open, never by operations (all nine, any arguments).
func verifC05KEK(op int) {
	verifEnvReset()
	kek := &verifKEK{key: verifKEKID}
	k := verifSymKVOnDisk(kek, param("secrets"), param("versions"))
	assume(verifKVInv(k))
	assume(verifKVBound(k))
	d := verifDB(k, &verifSink{})
	uses0 := ghostCount("kek.use")
	name := nondetString("name")
	ver := api.SecretVersion(nondetU32("version"))
	if op == opList {
		d.List(verifSuperuser())
	} else {
		verifCallOp(d, op, verifSuperuser(), name, ver, nondetSeq("val"))
	}
	assert("kek-not-consulted", ghostCount("kek.use") == uses0)
	reach("end")
}

func verifHarnessC05KEKList()          { verifC05KEK(opList) }
func verifHarnessC05KEKGet()           { verifC05KEK(opGet) }
func verifHarnessC05KEKPut()           { verifC05KEK(opPut) }
func verifHarnessC05KEKActivate()      { verifC05KEK(opActivate) }
func verifHarnessC05KEKDeleteVersion() { verifC05KEK(opDeleteVersion) }
func verifHarnessC05KEKDelete()        { verifC05KEK(opDelete) }

// audit log file: append-only, created owner-only
func verifHarnessC05AuditFile() {
	verifEnvReset()
	w, err := audit.NewFile("/state/audit.log")
	assert("opened", and(err == nil, w != nil))
	assert("opened-once", verifOpenFlags.n == 1)
	assert("audit-append-only-owner-only", and(verifOpenFlags.flag == os.O_WRONLY|os.O_APPEND|os.O_CREATE, verifOpenFlags.perm == 0600))
	reach("end")
}

// A database opened from an existing file (not the object that created it) never consults the KEK again, for any operation.
func verifC05Reopened(op int) {
	verifEnvReset()
	kek := &verifKEK{key: verifKEKID}
	k := verifSymKVOnDisk(kek, param("secrets"), param("versions"))
	assume(verifKVInv(k))
	assume(verifKVBound(k))
	assume(k.save() == nil)
	k2, err := openOrCreateKV(k.path, kek)
	assume(and(err == nil, k2 != nil))
	uses0 := ghostCount("kek.use")
	d := verifDB(k2, &verifSink{})
	name := nondetString("name")
	ver := api.SecretVersion(nondetU32("version"))
	kek.fail = true // the key service may be down after start-up: irrelevant for a running server
	res := verifCallOp(d, op, verifSuperuser(), name, ver, nondetSeq("val"))
	kek.fail = false
	assert("reopened-db-never-consults-kek", ghostCount("kek.use") == uses0)
	_ = res
	// and what it wrote is still a database of the same key
	k3, err3 := openOrCreateKV(k.path, kek)
	assert("file-written-by-reopened-db-opens", and(err3 == nil, k3 != nil))
	assert("file-written-by-reopened-db-holds-its-state", deepEq(k3.secrets, k2.secrets))
	reach("end")
}

func verifHarnessC05ReopenedPut()           { verifC05Reopened(opPut) }
func verifHarnessC05ReopenedActivate()      { verifC05Reopened(opActivate) }
func verifHarnessC05ReopenedDeleteVersion() { verifC05Reopened(opDeleteVersion) }
func verifHarnessC05ReopenedDelete()        { verifC05Reopened(opDelete) }

// C04 through the database's own save path: kv.save with the REAL atomicfile.WriteFile over the file-system model, a fault
// or a kill before every file-system call. Whatever save does around the atomic write (fall-backs, retries, extra
// files) is subject to the same rules: the live file is never opened for writing or written in place, an error leaves
// it exactly as it was, a kill leaves the complete old or the complete new document on stable storage.
func verifHarnessC04SaveReal() {
	verifEnvReset()
	kek := &verifKEK{key: verifKEKID}
	k := verifSymKVOnDisk(kek, param("secrets"), param("versions"))
	assume(verifKVInv(k))
	assume(verifKVBound(k))
	assume(k.save() == nil) // the file as an earlier run left it
	oldIno := verifFS.files[k.path]
	old := oldIno.content
	// a change in memory (what a mutation does before it saves)
	mapPutIf(k.secrets, nondetString("name"), verifSymSecret(1), true)
	verifFS.faults, verifFS.crashes = true, true
	crashed := false
	var err error
	func() {
		defer func() {
			if r := recover(); r != nil {
				if _, ok := r.(verifCrash); ok {
					crashed = true
					return
				}
				panic(r)
			}
		}()
		err = k.save()
	}()
	verifFS.faults, verifFS.crashes = false, false
	live := verifFS.files[k.path]
	if crashed {
		assert("crash-live-still-present", live != nil)
		if live != nil {
			assert("crash-old-or-new-complete-document", and(live.durableOK, or(sameBacking(live.durable, old), live != oldIno)))
		}
		reach("end-crash")
		return
	}
	if err != nil {
		assert("error-leaves-live-untouched", live == oldIno)
		if live != nil {
			assert("error-content-untouched", and(sameBacking(live.content, old), sameBacking(live.durable, old)))
		}
		reach("end-error")
		return
	}
	assert("ok-live-is-a-new-file", and(live != nil, live != oldIno))
	assert("ok-durable-and-owner-only", and(live.durableOK, sameBacking(live.durable, live.content), live.mode == 0600))
	assert("old-file-never-modified", and(sameBacking(oldIno.content, old), sameBacking(oldIno.durable, old)))
	reach("end-ok")
}
