package db

import (
	"errors"

	"github.com/tailscale/setec/acl"
	"github.com/tailscale/setec/types/api"
)

// C09 (DB leg): GetConditional answers not-changed iff the active version equals V.
func verifHarnessC09GetConditional() {
	verifAllowTable = nil
	k := verifSymKV(param("secrets"), param("versions"), "")
	assume(verifKVInv(k))
	sink := &verifSink{}
	d := verifDB(k, sink)
	caller := verifCaller()
	name := nondetString("name")
	v := api.SecretVersion(nondetU32("version"))
	assume(verifAllowUF(caller.Permissions, acl.ActionGet, name))
	pre := snapshot(k.secrets)

	sv, err := d.GetConditional(caller, name, v)

	assert("state-unchanged", deepEq(k.secrets, pre))
	ps := pre[name]
	if ps == nil {
		assert("absent-notfound", and(sv == nil, errors.Is(err, ErrNotFound), !errors.Is(err, api.ErrValueNotChanged)))
		reach("end-absent")
		return
	}
	same := ps.ActiveVersion == v
	if same {
		assert("same-notchanged", and(sv == nil, errors.Is(err, api.ErrValueNotChanged)))
		reach("end-same")
		return
	}
	assert("differs-delivers", and(err == nil, sv != nil))
	assert("delivers-active-number", sv.Version == ps.ActiveVersion)
	assert("delivers-active-bytes", byteString(sv.Value) == ps.Versions[ps.ActiveVersion])
	reach("end-changed")
}

// ---------- C14: lock discipline (L1-L4) ----------

var verifC14 struct {
	on bool
	d  *DB
}

func verifGuardKV(d *DB, k *kv) {
	mapAll(k.secrets, func(_ string, s *secret) bool {
		guardBy(s.Versions, &d.mu)
		guardBy(s, &d.mu)
		return true
	})
	guardBy(k.secrets, &d.mu)
	guardBy(k, &d.mu)
}

func verifC14Run(op int) {
	k := verifSymKV(param("secrets"), param("versions"), "save.fail")
	assume(verifKVInv(k))
	assume(verifKVBound(k))
	d := verifDB(k, &verifSink{mayFail: true})
	caller := verifSuperuser()
	name := nondetString("name")
	ver := api.SecretVersion(nondetU32("version"))
	val := nondetSeq("val")
	verifGuardKV(d, k)
	verifC14.on, verifC14.d = true, d

	switch op {
	case opList:
		d.List(caller)
	case 100:
		d.Path()
	case 101:
		d.WriteGen()
	default:
		verifCallOp(d, op, caller, name, ver, val)
	}

	verifC14.on = false
	guardOff()
	assert("lock-released", notHeld(&d.mu))
	assert("single-critical-section", lockCount(&d.mu) <= 1) // of the database lock (the audit writer has its own)
	reach("end")
}

func verifC14ObserveSave() {
	if verifC14.on {
		assert("save-under-lock", held(&verifC14.d.mu))
	}
}

func verifHarnessC14List()           { verifC14Run(opList) }
func verifHarnessC14Info()           { verifC14Run(opInfo) }
func verifHarnessC14Get()            { verifC14Run(opGet) }
func verifHarnessC14GetConditional() { verifC14Run(opGetConditional) }
func verifHarnessC14GetVersion()     { verifC14Run(opGetVersion) }
func verifHarnessC14Put()            { verifC14Run(opPut) }
func verifHarnessC14Activate()       { verifC14Run(opActivate) }
func verifHarnessC14DeleteVersion()  { verifC14Run(opDeleteVersion) }
func verifHarnessC14Delete()         { verifC14Run(opDelete) }
func verifHarnessC14Path()           { verifC14Run(100) }
func verifHarnessC14WriteGen()       { verifC14Run(101) }

// ---------- C18 (db legs) ----------

// byteString's text marshalers through the real encoding/base64: decode(encode(b)) == b for every byte vector up to the bound.
func verifHarnessC18Base64() {
	b := nondetBytes("raw", param("rawlen"))
	bs := byteString(b)
	text, err := bs.MarshalText()
	assert("encode-ok", err == nil)
	var out byteString
	err = (&out).UnmarshalText(text)
	assert("decode-ok", err == nil)
	assert("roundtrip", out == bs)
	assert("length", len(out) == len(b))
	reach("end")
}

// copy-in / copy-out at the database boundary
func verifHarnessC18CopyInOut() {
	k := verifSymKV(param("secrets"), param("versions"), "")
	assume(verifKVInv(k))
	assume(verifKVBound(k))
	d := verifDB(k, &verifSink{})
	name := nondetString("name")
	val := nondetBytes("val", param("vallen"))
	orig := append([]byte(nil), val...)
	v, err := d.Put(verifSuperuser(), name, val)
	if err != nil {
		reach("end-error")
		return
	}
	// the caller scribbles over its buffer afterwards
	mutate(val)
	got, gerr := d.GetVersion(verifSuperuser(), name, v)
	assert("get-ok", and(gerr == nil, got != nil))
	assert("copy-in", bytesEq(got.Value, orig))
	mutate(got.Value)
	got2, _ := d.GetVersion(verifSuperuser(), name, v)
	assert("copy-out", bytesEq(got2.Value, orig))
	reach("end")
}

// ---------- C14: a second request running in the window between the first one's audit record and its critical section ----------

var verifInterleave struct {
	on    bool
	d     *DB
	k     *kv
	n     int // how many requests the other client issues in the window (1 or 2)
	opB   [2]int
	nameB string
	verB  [2]api.SecretVersion
	valB  [2][]byte
	resB  verifOpResult
	ran   bool
	// the states a sequential explanation may place the first request in: before, between and after the other client's requests
	states []map[string]*secret
}

// called by the sink after a successful Sync: another client's whole requests may run here (unless the caller holds the DB lock,
// in which case the other requests would simply wait)
func verifInterleaveHook() {
	if !verifInterleave.on || verifInterleave.ran {
		return
	}
	if held(&verifInterleave.d.mu) {
		return
	}
	if !nondetBool("other.request.runs.now") {
		return
	}
	verifInterleave.ran = true
	concurrently(func() {
		for i := 0; i < verifInterleave.n; i++ {
			verifInterleave.resB = verifCallOp(verifInterleave.d, verifInterleave.opB[i], verifSuperuser(), verifInterleave.nameB, verifInterleave.verB[i], verifInterleave.valB[i])
			verifInterleave.states = append(verifInterleave.states, snapshot(verifInterleave.k.secrets))
		}
	})
}

// verifReadExplainedBy: the outcome of a get / conditional get of name (with V=ver) is what that call returns when run alone in state st.
func verifReadExplainedBy(st map[string]*secret, op int, name string, ver api.SecretVersion, res verifOpResult) bool {
	s := st[name]
	if s == nil {
		return and(res.value == nil, res.err != nil)
	}
	if op == opGetConditional && ver != 0 {
		if s.ActiveVersion == ver {
			return and(res.value == nil, res.err != nil)
		}
	}
	if res.value == nil {
		return false
	}
	return and(res.value.Version == s.ActiveVersion, mapHas(s.Versions, s.ActiveVersion), s.Versions[s.ActiveVersion] == byteString(res.value.Value))
}

func verifC14Interleave(opA int) {
	k := verifSymKV(param("secrets"), param("versions"), "")
	assume(verifKVInv(k))
	// two puts happen here: the counter bound of the claim (no wrap at 2^32-1) must leave room for all of them
	assume(mapAll(k.secrets, func(_ string, s *secret) bool { return s.LatestVersion < 0xFFFFFFFC }))
	d := verifDB(k, &verifSink{})
	name := nondetString("name")
	verA := api.SecretVersion(nondetU32("versionA"))
	valA := nondetSeq("valA")
	verifInterleave.on, verifInterleave.d, verifInterleave.k, verifInterleave.ran = true, d, k, false
	verifInterleave.n = 1
	if opA == opGet || opA == opGetConditional {
		verifInterleave.n = 2 // a rotation (activate the new version, delete the old one) is two requests
	}
	for i := 0; i < verifInterleave.n; i++ {
		verifInterleave.opB[i] = []int{opPut, opActivate, opDeleteVersion, opDelete}[nondetChoice("opB", 4)]
		verifInterleave.verB[i] = api.SecretVersion(nondetU32("versionB"))
		verifInterleave.valB[i] = nondetSeq("valB")
	}
	verifInterleave.nameB = name // same secret: the interesting case
	verifInterleave.states = []map[string]*secret{snapshot(k.secrets)}

	raceBegin()
	resA := verifCallOp(d, opA, verifSuperuser(), name, verA, valA)
	joinConcurrent()
	raceEnd() // no database memory is touched by both requests without the database lock

	verifInterleave.on = false
	assert("state-consistent-after-both", verifKVInv(k))
	resB := verifInterleave.resB
	s := k.secrets[name]
	if verifInterleave.ran && opA == opPut && verifInterleave.opB[0] == opPut && resA.err == nil && resB.err == nil {
		// B ran first (inside A's window), then A: both acknowledged values are there, under their own numbers
		if s == nil {
			assert("both-puts-retrievable", false)
			return
		}
		assert("both-puts-retrievable", and(mapHas(s.Versions, resA.version), s.Versions[resA.version] == byteString(valA),
			mapHas(s.Versions, resB.version), s.Versions[resB.version] == byteString(verifInterleave.valB[0])))
		assert("different-values-different-versions", implies(byteString(valA) != byteString(verifInterleave.valB[0]), resA.version != resB.version))
	}
	if opA == opGet || opA == opGetConditional {
		// linearizable: the outcome is the one this call has when run alone before, between or after the other client's requests
		ok := false
		for _, st := range verifInterleave.states {
			ok = or(ok, verifReadExplainedBy(st, opA, name, verA, resA))
		}
		assert("read-explained-by-a-sequential-order", ok)
		reach("end-read")
	}
	reach("end")
}

func verifHarnessC14InterleavePut()            { verifC14Interleave(opPut) }
func verifHarnessC14InterleaveActivate()       { verifC14Interleave(opActivate) }
func verifHarnessC14InterleaveDeleteVersion()  { verifC14Interleave(opDeleteVersion) }
func verifHarnessC14InterleaveGet()            { verifC14Interleave(opGet) }
func verifHarnessC14InterleaveGetConditional() { verifC14Interleave(opGetConditional) }

// ---------- C14: a response, once returned, is the caller's own: later requests do not rewrite it ----------

// A client holds the response of info/list while other clients' requests run to completion (the HTTP handler itself
// serialises the response after the database lock is released). What the client then reads is still what the call
// returned -- otherwise it sees a state no sequential order explains.
func verifC14ResponseStable(opA int) {
	k := verifSymKV(param("secrets"), param("versions"), "")
	assume(verifKVInv(k))
	assume(mapAll(k.secrets, func(_ string, s *secret) bool { return s.LatestVersion < 0xFFFFFFFC }))
	d := verifDB(k, &verifSink{})
	name := nondetString("name")
	var info *api.SecretInfo
	var list []*api.SecretInfo
	var err error
	if opA == opInfo {
		info, err = d.Info(verifSuperuser(), name)
	} else {
		list, err = d.List(verifSuperuser())
	}
	if err != nil {
		reach("end-error")
		return
	}
	infoThen := snapshot(info)
	listThen := snapshot(list)
	// an earlier call of the same kind may have warmed whatever the implementation keeps: do the read twice
	n := 1 + nondetChoice("later.requests", 2)
	for i := 0; i < n; i++ {
		opB := []int{opPut, opActivate, opDeleteVersion, opDelete}[nondetChoice("opB", 4)]
		verifCallOp(d, opB, verifSuperuser(), name, api.SecretVersion(nondetU32("versionB")), nondetSeq("valB"))
	}
	if opA == opInfo {
		assert("returned-info-not-rewritten-by-later-requests", deepEq(info, infoThen))
	} else {
		assert("returned-list-not-rewritten-by-later-requests", deepEq(list, listThen))
	}
	reach("end")
}

func verifHarnessC14InfoStable() { verifC14ResponseStable(opInfo) }
func verifHarnessC14ListStable() { verifC14ResponseStable(opList) }
