package api

// Engine conformance suite ("SELF"): small deterministic Go programs whose results are fixed constants. The same file is
// compiled natively (witness validation runs the harness with `go test`, so a wrong constant here fails natively) and
// executed by gosym's SSA interpreter (so a wrong interpretation of a language feature fails under the engine).
// It exists because a silent misinterpretation (an aggregate store that dropped field cells) once made an obligation
// vacuous; every feature the repository's code and the harnesses lean on gets a case.

import (
	"bytes"
	"encoding/base64"
	"errors"
	"fmt"
	"maps"
	"math/bits"
	"slices"
	"sort"
	"strconv"
	"strings"
	"sync"
	"time"
	"unicode"
	"unicode/utf8"
)

func confItoa(n int) string {
	if n == 0 {
		return "0"
	}
	neg := n < 0
	var ds []byte
	u := uint64(n)
	if neg {
		u = uint64(-n)
	}
	for u > 0 {
		ds = append(ds, byte('0'+u%10))
		u /= 10
	}
	if neg {
		ds = append(ds, '-')
	}
	for i, j := 0, len(ds)-1; i < j; i, j = i+1, j-1 {
		ds[i], ds[j] = ds[j], ds[i]
	}
	return string(ds)
}

func confJoin(ns ...int) string {
	out := ""
	for i, n := range ns {
		if i > 0 {
			out += ","
		}
		out += confItoa(n)
	}
	return out
}

func confB(b bool) int {
	if b {
		return 1
	}
	return 0
}

type confS struct {
	x, y int
}

func (s confS) Get() int   { return s.x }
func (s *confS) PGet() int { return s.x }
func (s *confS) Inc()      { s.x++ }

type confW struct {
	ready chan struct{}
	f     func() int
}

type confInner struct {
	c [2]confS
}
type confOuter struct {
	b confInner
	n int
}

type confEmb struct {
	confS
	z int
}

type confGetter interface{ Get() int }

// ---- aggregates, aliasing ----

func conf001() string { // composite literal assigned to an existing variable (field address taken before the zeroing store)
	var w confW
	w = confW{ready: make(chan struct{}, 1)}
	w.ready <- struct{}{}
	return confJoin(confB(w.ready != nil), len(w.ready), confB(w.f == nil))
}

func conf002() string { // struct copy
	a := confS{1, 2}
	b := a
	b.x = 5
	return confJoin(a.x, b.x)
}

func conf003() string { // pointer to a field survives assignment of the whole struct
	a := confS{1, 2}
	p := &a.x
	a = confS{7, 8}
	*p += 1
	return confJoin(*p, a.x, a.y)
}

func conf004() string { // arrays are values
	a := [3]int{1, 2, 3}
	b := a
	b[0] = 9
	p := &a[1]
	a = [3]int{4, 5, 6}
	return confJoin(a[0], b[0], *p)
}

func conf005() string { // nested aggregates keep their cells
	var o confOuter
	o.b.c[1].y = 5
	p := &o.b.c[1]
	o.b = confInner{}
	q := &o.b.c[0].x
	o = confOuter{n: 3}
	*q = 4
	return confJoin(p.y, o.b.c[0].x, o.n)
}

func conf006() string { // slices alias their array; append within capacity writes through
	s := []int{1, 2, 3}
	t := s[:2]
	t[0] = 9
	t = append(t, 7)
	u := append(s, 4) // beyond capacity: a new array
	u[1] = 8
	return confJoin(s[0], s[1], s[2], len(t), cap(t), u[1], len(u))
}

func conf007() string { // copy, overlapping and three-index slices
	s := []int{1, 2, 3, 4, 5}
	n := copy(s[1:], s)
	t := s[1:3:4]
	t = append(t, 50)
	t = append(t, 60) // reallocates
	t[0] = 70
	return confJoin(n, s[0], s[1], s[2], s[3], s[4], len(t), t[0])
}

func conf008() string { // map values are copies; missing keys; delete; len
	m := map[string]confS{"a": {1, 2}}
	v := m["a"]
	v.x = 9
	_, ok := m["zz"]
	m["b"] = confS{3, 4}
	delete(m, "a")
	delete(m, "nope")
	var nm map[string]int
	return confJoin(v.x, confB(ok), len(m), m["b"].y, m["a"].x, nm["q"], len(nm))
}

func conf009() string { // map of pointers, update through the pointer, iteration sum
	m := map[int]*confS{1: {1, 1}, 2: {2, 2}}
	m[1].x = 10
	sum := 0
	for k, v := range m {
		sum += k*100 + v.x
	}
	return confItoa(sum)
}

func conf010() string { // range copies elements; index form mutates
	arr := []confS{{1, 1}, {2, 2}}
	for _, v := range arr {
		v.x = 100
	}
	for i := range arr {
		arr[i].y = 50
	}
	n := 0
	s := []int{1, 2, 3}
	for range s { // the range expression is evaluated once
		s = append(s, 0)
		n++
	}
	return confJoin(arr[0].x, arr[1].y, n, len(s))
}

// ---- functions, closures, methods, defer ----

func conf011() string { // per-iteration loop variables (go >= 1.22)
	var fs []func() int
	for i := 0; i < 3; i++ {
		fs = append(fs, func() int { return i })
	}
	x := 1
	inc := func() { x++ }
	inc()
	inc()
	return confJoin(fs[0](), fs[1](), fs[2](), x)
}

func confDefer() (r int) {
	defer func() { r *= 2 }()
	defer func() { r += 3 }()
	return 4
}

func confRecover() (msg string) {
	defer func() {
		if e := recover(); e != nil {
			msg = "recovered"
		}
	}()
	var s []int
	_ = s[3]
	return "not reached"
}

func conf012() string {
	order := ""
	func() {
		for i := 0; i < 3; i++ {
			defer func(n int) { order += confItoa(n) }(i)
		}
	}()
	return confItoa(confDefer()) + "," + confRecover() + "," + order
}

func conf013() string { // method values bind the receiver at evaluation time
	s := confS{1, 0}
	f := s.Get
	g := s.PGet // (&s).PGet
	s.x = 2
	s.Inc()
	var i confGetter = s
	s.x = 9
	e := confEmb{confS{4, 5}, 6}
	e.Inc()
	return confJoin(f(), g(), i.Get(), e.Get(), e.x, e.z)
}

func confVariadic(pre int, xs ...int) int {
	t := pre
	for _, x := range xs {
		t += x
	}
	return t*10 + len(xs)
}

func conf014() string {
	s := []int{1, 2}
	return confJoin(confVariadic(1), confVariadic(1, 2, 3), confVariadic(0, s...))
}

func confMax[T int | string](a, b T) T {
	if a > b {
		return a
	}
	return b
}

func confMapKeys[K comparable, V any](m map[K]V) []K {
	var ks []K
	for k := range m {
		ks = append(ks, k)
	}
	return ks
}

func conf015() string { // generics, min/max/clear builtins
	ks := confMapKeys(map[int]string{3: "c", 1: "a", 2: "b"})
	sort.Ints(ks)
	m := map[int]int{1: 1}
	clear(m)
	s := []int{5, 6}
	clear(s)
	return confJoin(confMax(3, 4), len(confMax("ab", "b")), ks[0], ks[2], len(m), s[1], min(3, 1, 2), max(3, 1, 2))
}

// ---- integers ----

func conf016() string { // wrap-around
	var a int8 = 127
	a++
	var b uint8 = 0
	b--
	var c int32 = 1 << 30
	c *= 4
	var d int64 = -9223372036854775808
	e := d / -1 // wraps, no panic
	var f uint16 = 65535
	f += 2
	return confJoin(int(a), int(b), int(c), confB(e == d), int(f))
}

func conf017() string { // shifts
	var one int64 = 1
	var u uint64 = 1 << 63
	var n uint = 65
	var neg int32 = -8
	var k uint = 40
	var k7 uint = 7
	return confJoin(confB(one<<63 < 0), int(u>>n), int(neg>>1), int(neg>>k), int(uint8(1)<<k7), int(int8(1)<<k7))
}

func conf018() string { // division and remainder truncate towards zero; bit operations
	a, b := -7, 2
	var x uint8 = 0b1100
	var y uint8 = 0b1010
	return confJoin(a/b, a%b, 7/-2, 7%-2, int(x&^y), int(^x), int(x^y), int(x|y))
}

func conf019() string { // conversions
	var big int64 = 0x1_0000_0005
	var v = 300
	var m1 = -1
	var f = 3.9
	var u16 uint16 = 40000
	return confJoin(int(int32(big)), int(uint8(v)), int(uint32(m1)>>28), int(int16(u16)), int(f), int(-f))
}

func conf020() string { // comparisons of signed and unsigned at the edges
	var a int8 = -1
	var b uint8 = 255
	var c int64 = -1
	return confJoin(confB(a < 0), confB(b > 254), confB(uint64(c) > 1<<62), confB(int8(b) == a))
}

// ---- strings and bytes ----

func conf021() string {
	s := "héllo"
	n := 0
	idx := 0
	for i, r := range s {
		n++
		if r == 'l' && idx == 0 {
			idx = i
		}
	}
	bs := []byte(s)
	bs[0] = 'H'
	t := string(bs[:2]) + s[len(s)-2:]
	return confJoin(len(s), n, idx, int(s[1]), len(t), confB(s < "hz"), confB("" < "a"), confB(s[:1] == "h")) + "," + string(rune(65)) + t[len(t)-2:]
}

func conf022() string { // strings and bytes library calls used around the repository
	parts := strings.Split("a*b**c", "*")
	j := strings.Join(parts, ".")
	before, after, found := strings.Cut("k=v=w", "=")
	return confJoin(len(parts), len(parts[3]), confB(found), confB(strings.HasPrefix(j, "a.b")), confB(strings.HasSuffix(j, ".c")),
		confB(strings.Contains(j, "..")), strings.Index(j, "b"), strings.Index(j, "zz"), len(strings.TrimSpace("  x y \n")),
		confB(bytes.Equal([]byte("ab"), []byte("ab"))), len(bytes.Clone([]byte("abc"))), confB(bytes.Clone(nil) == nil)) + "," + before + "," + after +
		"," + strings.ToUpper("aB") + strings.TrimPrefix("prefix/x", "prefix/") + strings.TrimSuffix("x.db", ".db")
}

func conf023() string { // slices package, sort
	s := []string{"b", "a", "c", "a"}
	slices.Sort(s)
	s = slices.Compact(s)
	i, found := slices.BinarySearch(s, "b")
	vs := []int{3, 1, 2}
	slices.SortFunc(vs, func(a, b int) int { return b - a }) // sort.Slice needs reflectlite; the repository uses slices.SortFunc
	return confJoin(len(s), i, confB(found), confB(slices.Contains(s, "c")), vs[0], vs[2], slices.Index(vs, 2), confB(slices.Equal(vs, []int{3, 2, 1}))) + "," + s[0] + s[1] + s[2]
}

// ---- control flow ----

func conf024() string {
	out := ""
	for i := 0; i < 5; i++ {
		switch {
		case i == 1:
			out += "a"
			fallthrough
		case i == 2:
			out += "b"
		case i == 3:
			continue
		default:
			out += "d"
		}
		out += "."
	}
	n := 0
outer:
	for i := 0; i < 3; i++ {
		for j := 0; j < 3; j++ {
			if j == 2 {
				continue outer
			}
			if i == 2 {
				break outer
			}
			n++
		}
	}
	k := 0
	for i := range 4 {
		k += i
	}
	return out + confJoin(n, k)
}

func conf025() string { // multiple assignment evaluates the right-hand side first
	a, b := 1, 2
	a, b = b, a
	s := []int{1, 2, 3}
	i := 0
	i, s[i] = 2, 9
	s[0], s[2] = s[2], s[0]
	return confJoin(a, b, i, s[0], s[2])
}

// ---- interfaces, type switches, equality ----

type confErr struct{ code int }

func (e *confErr) Error() string { return "conf error " + confItoa(e.code) }

var confSentinel = errors.New("sentinel")

func conf026() string {
	var x any = confS{1, 2}
	var y any = confS{1, 2}
	var z any = 1
	var e1 error = &confErr{1}
	var e2 error = &confErr{1}
	kind := func(v any) int {
		switch t := v.(type) {
		case nil:
			return 0
		case int:
			return 1 + t
		case confS:
			return 10 + t.x
		case error:
			return 20
		}
		return 99
	}
	_, isS := z.(confS)
	a3 := [2]int{1, 2}
	return confJoin(confB(x == y), confB(x == z), confB(e1 == e2), kind(nil), kind(z), kind(x), kind(e1), kind("s"), confB(isS), confB(a3 == [2]int{1, 2}), confB(confS{1, 2} == confS{1, 3}))
}

func conf027() string { // wrapped errors
	w := fmt.Errorf("outer: %w", confSentinel)
	ww := fmt.Errorf("again: %w", w)
	j := errors.Join(ww, &confErr{7})
	// errors.As is not used by the repository (it needs reflectlite): a type assertion through Unwrap() []error instead
	as, code := false, 0
	if u, ok := j.(interface{ Unwrap() []error }); ok {
		for _, e := range u.Unwrap() {
			if ce, ok := e.(*confErr); ok {
				as, code = true, ce.code
			}
		}
	}
	return confJoin(confB(errors.Is(ww, confSentinel)), confB(errors.Is(j, confSentinel)), confB(errors.Is(w, errors.New("sentinel"))), confB(as), code, confB(errors.Unwrap(w) == confSentinel), confB(errors.Join(nil, nil) == nil)) + "," + ww.Error()
}

// ---- run-time panics, recovered ----

func confPanics(k int) (r string) {
	defer func() {
		if e := recover(); e != nil {
			if err, ok := e.(error); ok {
				r = "E:" + err.Error()
			} else if s, ok := e.(string); ok {
				r = "S:" + s
			} else {
				r = "other"
			}
		}
	}()
	switch k {
	case 0:
		var p *confS
		return confItoa(p.x)
	case 1:
		var m map[string]int
		m["a"] = 1
	case 2:
		z := 0
		return confItoa(1 / z)
	case 3:
		var a any = "str"
		return confItoa(a.(int))
	case 4:
		panic("custom")
	case 5:
		ch := make(chan int)
		close(ch)
		close(ch)
	}
	return "none"
}

func conf028() string {
	out := ""
	for k := 0; k < 6; k++ {
		r := confPanics(k)
		if len(r) > 2 {
			r = r[:2]
		}
		out += r
	}
	return out
}

// ---- channels (sequential use), select ----

func conf029() string {
	ch := make(chan int, 2)
	ch <- 1
	ch <- 2
	full := 0
	select {
	case ch <- 3:
	default:
		full = 1
	}
	a := <-ch
	close(ch)
	b, ok1 := <-ch
	c, ok2 := <-ch
	var nilch chan int
	got := 0
	select {
	case <-nilch:
		got = 1
	default:
		got = 2
	}
	return confJoin(full, a, b, confB(ok1), c, confB(ok2), len(ch), cap(ch), got)
}

// ---- pointers, new, zero values ----

func conf030() string {
	p := new(confS)
	q := p
	q.x = 3
	pp := &p
	(*pp).y = 4
	var zero confOuter
	r := &confS{}
	return confJoin(p.x, p.y, confB(p == q), confB(p == r), zero.b.c[1].x, confB(zero == confOuter{}))
}

func confCounter() func() int {
	n := 0
	return func() int { n++; return n }
}

func conf031() string { // escaping locals are per call
	a, b := confCounter(), confCounter()
	a()
	a()
	return confJoin(a(), b())
}

const (
	confK0 = iota * 10
	confK1
	confK2
	_
	confK4
)

func conf032() string {
	const big = 1 << 40
	type dur int64
	const sec dur = 1000
	d := 3 * sec
	return confJoin(confK1, confK2, confK4, big>>38, int(d/sec), int(d%7))
}


// ---- part 2 ----

type confFn func() []byte

func (f confFn) Get() []byte {
	if f == nil {
		return nil
	}
	return f()
}

type confNode struct {
	val  int
	next *confNode
}

func (n *confNode) Sum() int {
	if n == nil {
		return 0
	}
	return n.val + n.next.Sum()
}

func conf033() string { // function types with methods, nil receivers, recursion through pointers
	var nf confFn
	f := confFn(func() []byte { return []byte("xy") })
	l := &confNode{1, &confNode{2, &confNode{3, nil}}}
	var fib func(int) int
	fib = func(n int) int {
		if n < 2 {
			return n
		}
		return fib(n-1) + fib(n-2)
	}
	return confJoin(len(nf.Get()), len(f.Get()), l.Sum(), fib(10))
}

func confArr(a [3]int) int { a[0] = 100; return a[0] }
func confSl(s []int)        { s[0] = 100 }
func confAppend(s []int) []int {
	return append(s, 9)
}

func conf034() string { // arrays by value, slices by reference, append across calls
	a := [3]int{1, 2, 3}
	r := confArr(a)
	s := []int{1, 2, 3}
	confSl(s)
	base := make([]int, 2, 4)
	x := confAppend(base)
	y := confAppend(base) // same backing array: overwrites x[2]
	y[2] = 7
	grid := [2][2]int{{1, 2}, {3, 4}}
	g2 := grid
	g2[1][1] = 9
	ss := [][]int{{1}, {2, 3}}
	ss[1] = append(ss[1], 4)
	for _, v := range a { // ranging over an array copies it
		a[2] = 50
		_ = v
	}
	last := 0
	for _, v := range a {
		last = v
	}
	return confJoin(r, a[0], s[0], x[2], grid[1][1], g2[1][1], len(ss[1]), last)
}

func confArgsOrder(log *string, tag string, v int) int {
	*log += tag
	return v
}

func conf035() string { // evaluation order; defer evaluates its arguments at the defer statement
	log := ""
	sum := confArgsOrder(&log, "a", 1) + confArgsOrder(&log, "b", 2)*confArgsOrder(&log, "c", 3)
	out := ""
	func() {
		x := 1
		defer func(v int) { out += confItoa(v) }(x)
		x = 2
		defer func() { out += confItoa(x) }()
		x = 3
	}()
	rec := func() (r any) {
		defer func() { r = recover() }()
		return 5
	}()
	nested := func() (s string) {
		defer func() {
			if e := recover(); e != nil {
				s = "outer:" + e.(string)
			}
		}()
		func() {
			defer func() {
				if e := recover(); e != nil {
					panic("re-" + e.(string))
				}
			}()
			panic("p")
		}()
		return "no"
	}()
	return log + "," + confItoa(sum) + "," + out + "," + confItoa(confB(rec == nil)) + "," + nested
}

type confKey struct {
	a string
	b int
}

func conf036() string { // composite map keys, map of maps, sorted keys the way the repository gets them
	m := map[confKey]int{{"x", 1}: 10, {"x", 2}: 20}
	m[confKey{"x", 1}]++
	ak := map[[2]int]string{{1, 2}: "p"}
	mm := map[string]map[string]int{}
	if mm["a"] == nil {
		mm["a"] = map[string]int{}
	}
	mm["a"]["b"] = 3
	keys := slices.Sorted(maps.Keys(map[string]int{"b": 1, "c": 2, "a": 3}))
	infos := []*confS{{3, 0}, {1, 0}, {2, 0}}
	slices.SortFunc(infos, func(p, q *confS) int { return p.x - q.x })
	names := []string{"b", "a"}
	slices.SortFunc(names, func(p, q string) int { return strings.Compare(p, q) })
	return confJoin(m[confKey{"x", 1}], len(m), len(ak[[2]int{1, 2}]), mm["a"]["b"], len(mm["zz"]), infos[0].x, infos[2].x) + "," + keys[0] + keys[1] + keys[2] + names[0]
}

func conf037() string { // strconv, base64, utf8, unicode
	n, err := strconv.Atoi("-42")
	_, err2 := strconv.Atoi("4x")
	u, _ := strconv.ParseUint("4294967295", 10, 32)
	_, err3 := strconv.ParseUint("4294967296", 10, 32)
	e := base64.StdEncoding.EncodeToString([]byte("hi!"))
	d, _ := base64.StdEncoding.DecodeString("aGkh")
	_, err4 := base64.StdEncoding.DecodeString("a$")
	return confJoin(n, confB(err == nil), confB(err2 != nil), int(u>>16), confB(err3 != nil), confB(err4 != nil),
		confB(utf8.Valid([]byte("h\xc3\xa9"))), confB(utf8.Valid([]byte{0xff})), utf8.RuneCountInString("héllo"), confB(unicode.IsSpace('\u00a0')), confB(unicode.IsSpace('x'))) +
		"," + strconv.Itoa(1234) + strconv.FormatUint(7, 2) + e + string(d) + string(bytes.TrimSpace([]byte(" \t a b \n")))
}

func conf038() string { // durations and instants with concrete values
	d := 90 * time.Second
	t0 := time.Unix(1000, 0)
	t1 := time.Unix(1090, 0)
	tenth := time.Duration(1000) / 10
	return confJoin(int(d/time.Minute), int(d%time.Minute/time.Second), int(t1.Sub(t0)/time.Second), confB(t1.After(t0)), confB(t0.Before(t1)), int(t1.Unix()), int(tenth), int(time.Duration(3)*time.Millisecond/time.Microsecond))
}

func conf039() string { // sync primitives used sequentially
	var mu sync.Mutex
	var once sync.Once
	n := 0
	for i := 0; i < 3; i++ {
		mu.Lock()
		once.Do(func() { n += 10 })
		n++
		mu.Unlock()
	}
	var rw sync.RWMutex
	rw.RLock()
	rw.RUnlock()
	rw.Lock()
	rw.Unlock()
	return confItoa(n)
}

type confIsErr struct{ kind string }

func (e confIsErr) Error() string        { return "kind " + e.kind }
func (e confIsErr) Is(target error) bool { t, ok := target.(confIsErr); return ok && t.kind == e.kind }

func conf040() string { // custom Is, several %w, switch on errors
	a, b := errors.New("a"), errors.New("b")
	both := fmt.Errorf("x: %w, y: %w", a, b)
	w := fmt.Errorf("wrap: %w", confIsErr{"k"})
	sw := func(err error) int {
		switch {
		case err == nil:
			return 0
		case errors.Is(err, a):
			return 1
		case errors.Is(err, confIsErr{"k"}):
			return 2
		}
		return 3
	}
	return confJoin(confB(errors.Is(both, a)), confB(errors.Is(both, b)), sw(nil), sw(both), sw(w), sw(b), confB(errors.Is(w, confIsErr{"other"}))) + "," + both.Error()
}

func conf041() string { // type switches with several types per case, init statements, shadowing
	classify := func(v any) string {
		switch x := v.(type) {
		case int, int64:
			_ = x
			return "int"
		case string:
			if n := len(x); n > 2 {
				return "long"
			} else if n > 0 {
				return "short"
			}
			return "empty"
		case []byte, nil:
			return "bytes-or-nil"
		case fmt.Stringer:
			return "stringer"
		}
		return "other"
	}
	x := 1
	if x := 2; x > 1 {
		x++
		_ = x
	}
	return classify(1) + classify(int64(2)) + classify("abc") + classify("a") + classify("") + classify(nil) + classify([]byte{1}) + classify(time.Second) + classify(1.5) + confItoa(x)
}

func conf042() string { // bytes.Buffer and strings.Builder on concrete data
	var b bytes.Buffer
	b.WriteString("ab")
	b.WriteByte('c')
	b.Write([]byte("de"))
	alias := b.Bytes()
	n := b.Len()
	b.Reset()
	b.WriteString("XY")
	sb := "" // strings.Builder's copy check goes through unsafe.Pointer; the repository does not use it
	for i := 0; i < 3; i++ {
		sb += confItoa(i)
	}
	return confJoin(n, b.Len()) + "," + string(alias[:2]) + b.String() + sb + "zz"
}

func conf043() string { // unsigned arithmetic at the edges, mixed widths
	var a uint64 = 1 << 63
	b := a * 2
	var c uint32 = 0xFFFFFFFF
	d := uint64(c) + 1
	var e int64 = -1
	f := uint32(e)
	var g uint8 = 200
	h := g + 100
	i := int(g) + 100
	var m1 int8 = -1
	return confJoin(confB(b == 0), int(d>>32), int(f>>31), int(h), i, int(int8(g)), int(uint16(m1)>>8))
}

func conf044() string { // unsigned negation, wrapping multiplication, table lookups as math/bits does them
	var x uint = 2
	var y uint64 = 40
	neg := x & -x
	const deBruijn64 = 0x03f79d71b4ca8b09
	idx := (y & -y) * deBruijn64 >> (64 - 6)
	var z uint32 = 12
	idx32 := (z & -z) * 0x077CB531 >> (32 - 5)
	return confJoin(int(neg), int(idx), int(idx32), bits.TrailingZeros(2), bits.TrailingZeros64(40), bits.Len(255), bits.OnesCount8(0xF0), bits.LeadingZeros32(1)) + "," + strconv.FormatUint(7, 2) + strconv.FormatInt(-255, 16)
}

type confCase struct {
	name string
	f    func() string
	want string
}

type confTimeoutErr struct{ t bool }

func (e confTimeoutErr) Error() string { return "timeout-ish" }
func (e confTimeoutErr) Timeout() bool { return e.t }

func conf045() string { // errors.As: interface and concrete targets, wrapped, joined, absent
	w := fmt.Errorf("outer: %w", &confErr{5})
	j := errors.Join(confSentinel, fmt.Errorf("in: %w", confTimeoutErr{true}))
	var ce *confErr
	okC := errors.As(w, &ce)
	code := 0
	if okC {
		code = ce.code
	}
	var to interface{ Timeout() bool }
	okT := errors.As(j, &to)
	tv := okT && to.Timeout()
	var to2 interface{ Timeout() bool }
	okN := errors.As(w, &to2)
	var ce2 *confErr
	okN2 := errors.As(confSentinel, &ce2)
	var te confTimeoutErr
	okV := errors.As(fmt.Errorf("a: %w", fmt.Errorf("b: %w", confTimeoutErr{false})), &te)
	return confJoin(confB(okC), code, confB(okT), confB(tv), confB(okN), confB(okN2), confB(ce2 == nil), confB(okV), confB(te.t), confB(errors.As(nil, &ce2)))
}

func conf046() string { // byte/char searches and counts (assembly in the real build), ReplaceAll
	b := []byte("a\x00bc\x00")
	return confJoin(bytes.IndexByte(b, 0), bytes.IndexByte(b, 'z'), strings.IndexByte("hello", 'l'), strings.IndexByte("", 'l'),
		bytes.Count(b, []byte{0}), strings.Count("a*b*c", "*"), strings.Count("abc", "*")) + "," +
		strings.ReplaceAll("a*b*c", "*", ".*") + "," + strings.ReplaceAll("abc", "*", "x")
}

var confCases = []confCase{
	{"001-complit-assign", conf001, "1,1,1"},
	{"002-struct-copy", conf002, "1,5"},
	{"003-field-pointer", conf003, "8,8,8"},
	{"004-array-value", conf004, "4,9,5"},
	{"005-nested-cells", conf005, "0,4,3"},
	{"006-slice-alias", conf006, "9,2,7,3,3,8,4"},
	{"007-copy-3index", conf007, "4,1,1,2,50,4,4,70"},
	{"008-map-values", conf008, "9,0,1,4,0,0,0"},
	{"009-map-pointers", conf009, "312"},
	{"010-range", conf010, "1,50,3,6"},
	{"011-closures", conf011, "0,1,2,3"},
	{"012-defer-recover", conf012, "14,recovered,210"},
	{"013-method-values", conf013, "1,9,3,5,5,6"},
	{"014-variadic", conf014, "10,62,32"},
	{"015-generics-builtins", conf015, "4,1,1,3,0,0,1,3"},
	{"016-wrap", conf016, "-128,255,0,1,1"},
	{"017-shifts", conf017, "1,0,-4,-1,128,-128"},
	{"018-div-bits", conf018, "-3,-1,-3,1,4,243,6,14"},
	{"019-conversions", conf019, "5,44,15,-25536,3,-3"},
	{"020-edges", conf020, "1,1,1,1"},
	{"021-strings", conf021, "6,5,3,195,4,0,1,1,Alo"},
	{"022-strings-lib", conf022, "4,1,1,1,1,1,2,-1,3,1,3,1,k,v=w,ABxx"},
	{"023-slices-sort", conf023, "3,1,1,1,3,1,1,1,abc"},
	{"024-control", conf024, "d.ab.b.d.4,6"},
	{"025-multi-assign", conf025, "2,1,2,3,9"},
	{"026-iface-eq", conf026, "1,0,0,0,2,11,20,99,0,1,0"},
	{"027-errors", conf027, "1,1,0,1,7,1,1,again: outer: sentinel"},
	{"028-panics", conf028, "E:E:E:E:S:E:"},
	{"029-channels", conf029, "1,1,2,1,0,0,0,2,2"},
	{"030-pointers", conf030, "3,4,1,0,0,1"},
	{"031-escape", conf031, "3,1"},
	{"032-consts", conf032, "10,20,40,4,3,4"},
	{"033-fn-types-recursion", conf033, "0,2,6,55"},
	{"034-arrays-slices-calls", conf034, "100,1,100,7,4,9,3,50"},
	{"035-eval-order-defer", conf035, "abc,7,31,1,outer:re-p"},
	{"036-map-keys-sorted", conf036, "11,2,1,3,0,1,3,abca"},
	{"037-strconv-b64-utf8", conf037, "-42,1,1,65535,1,1,1,0,5,1,0,1234111aGkhhi!a b"},
	{"038-time", conf038, "1,30,90,1,1,1090,100,3000"},
	{"039-sync", conf039, "13"},
	{"040-errors-is", conf040, "1,1,0,1,2,3,0,x: a, y: b"},
	{"041-type-switch", conf041, "intintlongshortemptybytes-or-nilbytes-or-nilstringerother1"},
	{"042-buffers", conf042, "5,2,XYXY012zz"},
	{"043-unsigned", conf043, "1,1,1,44,300,-56,255"},
	{"044-bits", conf044, "2,7,3,1,3,8,4,31,111-ff"},
	{"045-errors-as", conf045, "1,5,1,1,0,0,1,1,0,0"},
	{"046-bytealg", conf046, "1,-1,2,-1,2,2,0,a.*b.*c,abc"},
}

// One harness per case group keeps a failure local; every case is fully concrete, so each is a single path.
func verifConfRun(lo, hi int) {
	for i := lo; i < hi && i < len(confCases); i++ {
		c := confCases[i]
		got := c.f()
		if got != c.want {
			confReport(c.name, got, c.want)
		}
	}
	reach("end")
}

func confReport(name, got, want string) {
	ghostLog("conformance mismatch " + name + ": got " + got + " want " + want)
	assert("conformance", false)
}

func verifHarnessConformanceA() { verifConfRun(0, 10) }
func verifHarnessConformanceB() { verifConfRun(10, 20) }
func verifHarnessConformanceC() { verifConfRun(20, 32) }
func verifHarnessConformanceD() { verifConfRun(32, 38) }
func verifHarnessConformanceE() { verifConfRun(38, 47) }
