package setec

import (
	"context"
	"errors"
	"time"

	"github.com/tailscale/setec/types/api"
	"golang.org/x/sync/errgroup"
	"golang.org/x/sync/singleflight"
)

var verifErrInjected = errors.New("verif: injected failure")

// ============ ghost clock (seconds) ============

var verifNowSec int64

// verifAdvance moves the ghost clock forward by an arbitrary non-negative amount.
func verifAdvance() {
	d := nondetMathI64("clock.advance")
	assume(and(d >= 0, d < 1<<40))
	verifNowSec += d
}

func verifTimeNow() time.Time { return time.Unix(verifNowSec, verifNowFrac) }

// nanoseconds within the current second (0 unless a harness makes the clock finer than the stamps)
var verifNowFrac int64

// ============ context model ============

type verifCtx struct {
	parent      *verifCtx
	hasDeadline bool
	deadlineNS  int64 // ghost nanoseconds
	cancelled   bool
	tag         string
}

// ghost time in nanoseconds for deadlines and sleeps
var verifNowNS int64

func (c *verifCtx) expired() bool {
	if c == nil {
		return false
	}
	return or(c.cancelled, and(c.hasDeadline, verifNowNS >= c.deadlineNS), c.parent.expired())
}

func (c *verifCtx) Deadline() (time.Time, bool) {
	for p := c; p != nil; p = p.parent {
		if p.hasDeadline {
			return time.Time{}, true
		}
	}
	return time.Time{}, false
}

func (c *verifCtx) Done() <-chan struct{} {
	return envChan[struct{}]("ctx.done:"+c.tag, c.expired())
}

func (c *verifCtx) Err() error {
	if !c.expired() {
		return nil
	}
	if c.deadlinePassed() {
		return context.DeadlineExceeded
	}
	return context.Canceled
}

func (c *verifCtx) deadlinePassed() bool {
	if c == nil {
		return false
	}
	if c.hasDeadline {
		if verifNowNS >= c.deadlineNS {
			return true
		}
	}
	return c.parent.deadlinePassed()
}

// Value lets a context derived from c by the real context package (native runs) find its way back to c.
func (c *verifCtx) Value(key any) any {
	if _, ok := key.(verifCtxKey); ok {
		return c
	}
	return nil
}

type verifCtxKey struct{}

func verifCtxOf(ctx context.Context) *verifCtx {
	if vc, ok := ctx.(*verifCtx); ok {
		return vc
	}
	if symbolic() {
		return nil
	}
	vc, _ := ctx.Value(verifCtxKey{}).(*verifCtx)
	return vc
}

// verifRootCtx: the harness context a (possibly derived) context descends from.
func verifRootCtx(ctx context.Context) *verifCtx {
	vc := verifCtxOf(ctx)
	for vc != nil && vc.parent != nil {
		vc = vc.parent
	}
	return vc
}

func verifBackground() context.Context { return &verifCtx{tag: "background"} }

func verifStubWithTimeout(parent context.Context, d time.Duration) (context.Context, context.CancelFunc) {
	p, _ := parent.(*verifCtx)
	c := &verifCtx{parent: p, hasDeadline: true, deadlineNS: verifNowNS + int64(d), tag: "timeout"}
	ghostLog("ctx.withtimeout")
	verifLastTimeout = d
	return c, func() { c.cancelled = true }
}

var verifLastTimeout time.Duration

func verifStubWithCancel(parent context.Context) (context.Context, context.CancelFunc) {
	p, _ := parent.(*verifCtx)
	c := &verifCtx{parent: p, tag: "cancel"}
	return c, func() { c.cancelled = true }
}

// ============ service model ============

// verifClient is a scripted StoreClient over a symbolic service state.
type verifClient struct {
	svc            map[string]*api.SecretValue // the service's active (version, bytes) per name
	mayFail        bool
	requests       int
	hang           bool      // requests block until their context ends (then fail with its error)
	mayCancel      *verifCtx // the caller of the operation may give up after any request
	preferFailures bool
	honoursCancel  bool // a request made with a context that has already ended fails with that context's error (as an HTTP client does)
	mayLack        bool // the service may have lost a name the store knows (deleted on the server): requests for it answer api.ErrNotFound
}

func (c *verifClient) answer(ctx context.Context, name string) (*api.SecretValue, error) {
	c.requests++
	ghostLog("svc.request")
	if c.hang {
		// the request returns only when ctx ends: advance the clock to that moment
		vc := ctx.(*verifCtx)
		verifWaitFor(vc)
		return nil, &verifCtxErr{err: ctx.Err()}
	}
	if c.honoursCancel {
		if vc := verifCtxOf(ctx); vc != nil && vc.expired() {
			ghostLog("svc.request.cancelled")
			return nil, &verifCtxErr{err: ctx.Err()}
		}
	}
	if c.mayFail {
		f := nondetBool("svc.fail")
		if c.preferFailures {
			replayHint(f) // counterexamples with several independent failures do not depend on the schedule of concurrent tasks
		}
		if f {
			ghostLog("svc.failed")
			return nil, verifErrInjected
		}
	}
	sv := c.svc[name]
	if sv == nil {
		ghostLog("svc.notfound")
		return nil, api.ErrNotFound
	}
	if c.mayCancel != nil {
		if nondetBool("caller.gives.up.after.this.request") {
			c.mayCancel.cancelled = true
		}
	}
	return &api.SecretValue{Value: append([]byte(nil), sv.Value...), Version: sv.Version}, nil
}

type verifCtxErr struct{ err error }

func (e *verifCtxErr) Error() string { return "request aborted: context ended" }
func (e *verifCtxErr) Unwrap() error { return e.err }

func (c *verifClient) Get(ctx context.Context, name string) (*api.SecretValue, error) {
	noteTrace("client.Get")
	return c.answer(ctx, name)
}

func (c *verifClient) GetIfChanged(ctx context.Context, name string, old api.SecretVersion) (*api.SecretValue, error) {
	noteTrace("client.GetIfChanged")
	sv, err := c.answer(ctx, name)
	if err != nil {
		return nil, err
	}
	if sv.Version == old {
		return nil, api.ErrValueNotChanged
	}
	return sv, nil
}

// verifWaitFor blocks (in ghost time) until ctx ends: the clock jumps to the earliest deadline in its chain.
func verifWaitFor(c *verifCtx) {
	if c.expired() {
		return
	}
	has, dl := false, int64(0)
	for p := c; p != nil; p = p.parent {
		if p.hasDeadline {
			if !has || p.deadlineNS < dl {
				has, dl = true, p.deadlineNS
			}
		}
	}
	if !has {
		ghostLog("hang.forever")
		assert("request-never-hangs-forever", false)
		return
	}
	verifNowNS = dl
}

// ============ cache model ============

type verifCache struct {
	content   []byte
	readFails bool
	mayFail   bool
	writes    int
	reads     int
	// another goroutine's operation that happens while this Write is in progress (if the store's lock lets it)
	duringWrite func()
}

func (c *verifCache) Write(data []byte) error {
	ghostLog("cache.write.call")
	if c.duringWrite != nil {
		f := c.duringWrite
		c.duringWrite = nil
		concurrently(f)
	}
	if c.mayFail {
		if nondetBool("cache.write.fail") {
			return verifErrInjected
		}
	}
	c.content = data
	c.writes++
	ghostLog("cache.write")
	return nil
}

func (c *verifCache) Read() ([]byte, error) {
	c.reads++
	if c.readFails {
		return nil, verifErrInjected
	}
	return c.content, nil
}

// ============ singleflight model ============

var verifSF struct {
	keys       []string
	follower   bool // this caller may be a follower of another caller's flight
	followerFn func(key string) (any, error)
	strict     bool
	other      bool // the call is the other caller's own flight
	// poll coalescing: another caller's poll may be in flight when this caller asks for one
	joinPoll bool
	onJoin   func()
	inflight string // key of the flight in progress that this caller joined
	// another goroutine may run to completion between this caller's Do call and the start of its flight
	beforeLead func()
}

func verifStubSFDo(g *singleflight.Group, key string, fn func() (any, error)) (any, error, bool) {
	verifSF.keys = append(verifSF.keys, key)
	ghostLog("sf.do")
	if verifSF.follower {
		if nondetBool("sf.isfollower") {
			ghostLog("sf.followed")
			v, err := verifSF.followerFn(key)
			return v, err, true
		}
	}
	if verifSF.other {
		ghostLog("sf.other.led")
		v, err := fn()
		return v, err, false
	}
	if verifSF.beforeLead != nil {
		f := verifSF.beforeLead
		verifSF.beforeLead = nil
		f()
	}
	if verifSF.strict {
		// a caller that already led a flight and saw it fail must report that failure, not start over
		assert("a-caller-leads-at-most-once", ghostCount("sf.led") == 0)
	}
	ghostLog("sf.led")
	v, err := fn()
	// singleflight reports shared=true to every caller of a flight that had a duplicate, including the one that ran it
	return v, err, nondetBool("sf.someone.joined")
}

func verifStubSFDoChan(g *singleflight.Group, key string, fn func() (any, error)) <-chan singleflight.Result {
	verifSF.keys = append(verifSF.keys, key)
	ghostLog("sf.dochan")
	ch := make(chan singleflight.Result, 1)
	if verifSF.joinPoll {
		if nondetBool("sf.poll.already.in.flight") {
			// a duplicate call joins the flight in progress: fn is NOT run again, the result arrives when that flight ends
			ghostLog("sf.joined")
			verifSF.inflight = key
			if verifSF.onJoin != nil {
				verifSF.onJoin()
			}
			return ch
		}
	}
	v, err := fn()
	ch <- singleflight.Result{Val: v, Err: err}
	return ch
}

// Forget makes the next call for key start a second execution although one is still in flight.
func verifStubSFForget(g *singleflight.Group, key string) {
	ghostLog("sf.forget")
	assert("flight-in-progress-never-forgotten", verifSF.inflight != key)
}

// ============ errgroup model ============
//
// The tasks of a group run concurrently; the model explores the sequential order of the Go calls. What matters for the
// properties here is the contract: Wait returns only the FIRST error, and a group made by WithContext cancels its
// context as soon as one task fails.

var verifEG struct {
	err    error
	cancel func()
}

func verifStubEGWithContext(ctx context.Context) (*errgroup.Group, context.Context) {
	c2, cancel := verifStubWithCancel(ctx)
	verifEG.err, verifEG.cancel = nil, cancel
	return &errgroup.Group{}, c2
}

func verifStubEGGo(g *errgroup.Group, f func() error) {
	ghostLog("errgroup.go")
	if err := f(); err != nil && verifEG.err == nil {
		verifEG.err = err
		if verifEG.cancel != nil {
			verifEG.cancel()
		}
	}
}

func verifStubEGWait(g *errgroup.Group) error {
	if verifEG.cancel != nil {
		verifEG.cancel()
	}
	return verifEG.err
}

func verifLogf(format string, args ...any) {}

// ============ sleeping ============

func verifStubTimeAfter(d time.Duration) <-chan time.Time {
	ghostLog("time.after")
	verifSleeps = append(verifSleeps, d)
	verifPendingSleep = d
	return envChan[time.Time]("time.after", true)
}

var verifSleeps []time.Duration
var verifPendingSleep time.Duration

func verifEnvReset() {
	verifNowSec, verifNowNS, verifNowFrac = 0, 0, 0
	verifSF.keys, verifSF.follower, verifSF.followerFn, verifSF.strict, verifSF.other = nil, false, nil, false, false
	verifSF.joinPoll, verifSF.onJoin, verifSF.inflight, verifSF.beforeLead = false, nil, "", nil
	verifEG.err, verifEG.cancel = nil, nil
	verifSleeps = nil
	verifLastTimeout = 0
}

// ============ symbolic store states ============

func verifSymCached(declared bool) *cachedSecret {
	return &cachedSecret{
		Secret:     &api.SecretValue{Value: nondetSeq("st.val"), Version: api.SecretVersion(nondetU32("st.ver"))},
		LastAccess: nondetMathI64("st.access"),
		Declared:   declared,
	}
}

// verifSymStore: a running store with n symbolic names; each may be declared or not, and may have a handle.
// The service state covers the same names.
func verifSymStore(n int, client *verifClient, cache Cache) *Store {
	s := &Store{client: client, logf: verifLogf, cache: cache, timeNow: verifTimeNow}
	s.allowLookup = nondetBool("allowLookup")
	s.expiryAge = time.Duration(nondetMathI64("expiryAge"))
	s.active.m = map[string]*cachedSecret{}
	s.active.f = map[string]Secret{}
	s.active.w = map[string][]watcher{}
	client.svc = map[string]*api.SecretValue{}
	verifSlots = nil
	for i := 0; i < n; i++ {
		name := nondetString("st.name")
		p := nondetBool("st.p")
		verifSlots = append(verifSlots, verifSlot{name, p})
		mapPutIf(s.active.m, name, verifSymCached(nondetBool("st.declared")), p)
		mapPutIf(s.active.f, name, Secret(func() []byte { return nil }), and(p, nondetBool("st.handle")))
		has := p
		if client.mayLack {
			has = and(p, nondetBool("svc.has"))
		}
		mapPutIf(client.svc, name, &api.SecretValue{Value: nondetSeq("svc.val"), Version: api.SecretVersion(nondetU32("svc.ver"))}, has)
	}
	s.ctx = verifBackground()
	return s
}

// the slots verifSymStore filled, in order, with their presence: iterating them draws nondeterministic values in the
// same order under the engine and natively (a native map has no entry for an absent slot)
type verifSlot struct {
	name    string
	present bool
}

var verifSlots []verifSlot

// verifStoreInv (J): every known name has a value; handles and watchers only for known names.
func verifStoreInv(s *Store) bool {
	a := mapAll(s.active.m, func(name string, cs *cachedSecret) bool {
		if cs == nil || cs.Secret == nil {
			return false
		}
		return name != ""
	})
	b := mapAll(s.active.f, func(name string, _ Secret) bool { return mapHas(s.active.m, name) })
	c := mapAll(s.active.w, func(name string, _ []watcher) bool { return mapHas(s.active.m, name) })
	return and(a, b, c)
}
