package setec

import (
	"context"
	"encoding/json"
	"os"
	"reflect"
	"time"

	"github.com/tailscale/setec/types/api"
	"tailscale.com/atomicfile"
)

// scripted client for construction: records every Get with its outcome; fails at most maxFails times.
type verifInitClient struct {
	svc      map[string]*api.SecretValue
	names    []string
	oks      []bool
	maxFails int
	fails    int
	flavours bool // failures may look like context errors although the caller's context is alive, and the other way round
	gaveUp   bool // a request has failed while the caller's context had ended: construction must return now
}

func (c *verifInitClient) Get(ctx context.Context, name string) (*api.SecretValue, error) {
	ghostLog("svc.request")
	if c.gaveUp {
		ghostLog("svc.request.after.giving.up")
	}
	// the caller of NewStore: the root of whatever context the request was made with (an implementation may derive
	// per-request contexts from it)
	caller := verifRootCtx(ctx)
	if c.flavours {
		// a request takes time: any amount, also more than whatever per-request patience the code under test has
		d := nondetMathI64("svc.request.takes.ns")
		assume(and(d >= 0, d <= 3600000000000))
		replayHint(or(d == 0, d == 10000000001))
		verifNowNS += d
		if !symbolic() && d > 0 {
			time.Sleep(min(time.Duration(d), 60*time.Second))
		}
	}
	ok := true
	if c.fails < c.maxFails {
		if nondetBool("svc.fail") {
			ok = false
		}
	}
	var sv *api.SecretValue
	if ok {
		sv = c.svc[name]
		if sv == nil {
			ok = false // the service does not have it (yet)
		}
	}
	c.names = append(c.names, name)
	c.oks = append(c.oks, ok)
	if !ok {
		c.fails++
		ghostLog("svc.failed")
		if c.fails > c.maxFails {
			// the caller gives up: its context ends, construction must now return promptly
			if caller != nil {
				caller.cancelled = true
				ghostLog("caller.gaveup")
			}
		}
		if caller != nil && caller.expired() {
			c.gaveUp = true
		}
		if cerr := ctx.Err(); cerr != nil {
			if c.flavours {
				if nondetBool("svc.error.hides.context.error") {
					return nil, verifErrInjected // a client whose errors do not wrap the context's
				}
			}
			return nil, &verifCtxErr{err: cerr}
		}
		if c.flavours {
			if nondetBool("svc.error.is.own.timeout") {
				// the client's own per-request timeout: looks like a context error, but the caller's context is alive
				return nil, &verifCtxErr{err: context.DeadlineExceeded}
			}
		}
		return nil, verifErrInjected
	}
	return &api.SecretValue{Value: append([]byte(nil), sv.Value...), Version: sv.Version}, nil
}

func (c *verifInitClient) GetIfChanged(ctx context.Context, name string, old api.SecretVersion) (*api.SecretValue, error) {
	return c.Get(ctx, name)
}

var verifStoreUnderTest *Store

func verifLockOf(s *Store) any {
	if s == nil {
		return nil
	}
	return &s.active.Mutex
}

func verifExpectedBackoff(k int) time.Duration {
	d := time.Millisecond
	for i := 0; i < k; i++ {
		if d < 4*time.Second {
			d += d
		}
	}
	return d
}

// C10 + C13(a,b,e): NewStore over declared names, cache contents of every kind, failing/recovering service, ending context.
func verifHarnessC10NewStoreNoCache()  { verifC10NewStore([]int{0}, param("names")) }
func verifHarnessC10NewStoreDoc()      { verifC10NewStore([]int{3}, param("names")) }
func verifHarnessC10NewStoreBadCache() { verifC10NewStore([]int{1, 2, 4}, 1) }

func verifC10NewStore(kinds []int, n int) {
	verifEnvReset()
	verifStoreUnderTest = nil
	names := make([]string, n)
	svc := map[string]*api.SecretValue{}
	for i := range names {
		names[i] = nondetString("declared")
		if nondetBool("svc.has") {
			if _, dup := svc[names[i]]; !dup {
				svc[names[i]] = &api.SecretValue{Value: nondetSeq("svc.val"), Version: api.SecretVersion(nondetU32("svc.ver"))}
			}
		}
	}
	client := &verifInitClient{svc: svc, maxFails: param("fails"), flavours: true}

	// cache: none / unreadable / empty / a document (valid or not) / arbitrary bytes
	var cache *verifCache
	garbageClass := 0
	var doc map[string]*cachedSecret
	kind := kinds[nondetChoice("cache.kind", len(kinds))]
	switch kind {
	case 1:
		cache = &verifCache{readFails: true, mayFail: true}
	case 2:
		cache = &verifCache{mayFail: true}
	case 3:
		doc = map[string]*cachedSecret{}
		for i := 0; i < n; i++ {
			var cs *cachedSecret
			switch nondetChoice("cache.entry", param("entrykinds")) {
			case 0:
				cs = verifSymCached(false)
			case 1:
				cs = &cachedSecret{LastAccess: nondetMathI64("st.access")} // no value: invalid
			}
			mapPutIf(doc, nondetString("cache.name"), cs, nondetBool("cache.p"))
		}
		bs, _ := json.Marshal(doc)
		cache = &verifCache{content: bs, mayFail: true}
	case 4:
		garbage := nondetSeq("cache.garbage")
		garbageClass = jsonClass(garbage) // 0 only if the bytes are exactly one JSON value: an oracle independent of how NewStore decodes
		cache = &verifCache{content: garbage, mayFail: true}
	}
	ctx := &verifCtx{tag: "init", hasDeadline: nondetBool("ctx.hasDeadline"), deadlineNS: nondetMathI64("ctx.deadline"), cancelled: nondetBool("ctx.cancelled")}
	cfg := StoreConfig{Client: client, Secrets: append([]string(nil), names...), // NewStore sorts and compacts this slice in place
		AllowLookup: nondetBool("allowLookup"), PollInterval: -1, Logf: verifLogf, TimeNow: verifTimeNow,
		ExpiryAge: time.Duration(nondetMathI64("expiryAge"))} // any expiry configuration, any clock, any access stamps in the cache
	verifNowSec = nondetMathI64("now")
	assume(and(verifNowSec >= 0, verifNowSec < 1<<40))
	if cache != nil {
		cfg.Cache = cache
	}

	s, err := NewStore(ctx, cfg)

	assert("exactly-one-outcome", (s == nil) != (err == nil))
	// every pause is the capped doubling back-off
	for k, d := range verifSleeps {
		assert("backoff-capped-doubling", d == verifExpectedBackoff(k))
	}
	// never re-fetch a secret already obtained
	norefetch := true
	for j := range client.names {
		for i := 0; i < j; i++ {
			norefetch = and(norefetch, not(and(client.oks[i], client.names[i] == client.names[j])))
		}
	}
	assert("never-refetch-obtained-secret", norefetch)
	anyEmpty := false
	for _, nm := range names {
		anyEmpty = or(anyEmpty, nm == "")
	}
	assert("no-request-after-a-failure-with-the-callers-context-ended", ghostCount("svc.request.after.giving.up") == 0)
	if err != nil {
		if anyEmpty {
			assert("empty-name-rejected-before-any-request", len(client.names) == 0)
		} else {
			// retrying goes on until all succeed or the CALLER's context ends, whatever the failures look like
			assert("gives-up-only-when-the-callers-context-has-ended", ctx.expired())
		}
		reach("end-error")
		return
	}
	assert("empty-name-never-accepted", not(anyEmpty))
	assert("lock-released", notHeld(&s.active.Mutex))
	// success: every declared name has a value, marked declared
	for _, nm := range names {
		cs := s.active.m[nm]
		if cs == nil {
			assert("declared-name-has-value", false)
			return
		}
		assert("declared-name-has-value", and(cs.Secret != nil, cs.Declared))
		// provenance: from a valid cache entry if there is one, otherwise what the service served
		fromCache := false
		if doc != nil && verifDocValid(doc) {
			if d := doc[nm]; d != nil {
				fromCache = true
				assert("cached-value-used-as-is", and(cs.Secret.Version == d.Secret.Version, bytesEq(cs.Secret.Value, d.Secret.Value), cs.LastAccess == d.LastAccess))
			}
		}
		if !fromCache {
			fetched := false
			for j := range client.names {
				fetched = or(fetched, and(client.oks[j], client.names[j] == nm))
			}
			if kind == 4 {
				// arbitrary cache bytes may happen to be a well-formed document; only then may a value come from it
				if ghostCount("json.decode.failed") > 0 {
					assert("undecodable-cache-ignored-as-a-whole", fetched)
				}
				assert("cache-that-is-not-exactly-one-json-document-is-ignored-as-a-whole", implies(garbageClass != 0, fetched))
				if !fetched {
					continue
				}
			}
			assert("uncached-value-was-fetched", fetched)
			sv := svc[nm]
			if sv == nil {
				assert("value-really-served", false)
				return
			}
			assert("value-really-served", and(cs.Secret.Version == sv.Version, bytesEq(cs.Secret.Value, sv.Value)))
		}
	}
	// C19 across restarts: what the cache supplied but nobody declared now is undeclared
	assert("cache-only-names-are-undeclared", mapAll(s.active.m, func(nm string, cs *cachedSecret) bool {
		declared := false
		for _, d := range names {
			declared = or(declared, d == nm)
		}
		if cs == nil {
			return false
		}
		return cs.Declared == declared
	}))
	if doc != nil && verifDocValid(doc) {
		all := true
		for _, nm := range names {
			all = and(all, mapHas(doc, nm))
		}
		if all {
			assert("complete-cache-no-service-contact", len(client.names) == 0)
			reach("end-from-cache")
		}
	}
	if kind == 4 {
		onlyDeclared := mapAll(s.active.m, func(nm string, _ *cachedSecret) bool {
			declared := false
			for _, d := range names {
				declared = or(declared, d == nm)
			}
			return declared
		})
		if ghostCount("json.decode.failed") > 0 {
			assert("undecodable-cache-contributes-no-names", onlyDeclared)
		}
		assert("cache-that-is-not-exactly-one-json-document-contributes-no-names", implies(garbageClass != 0, onlyDeclared))
	}
	// C13(a): if anything had to be fetched the cache is rewritten with the whole active set (a write error is not fatal)
	if len(client.names) > 0 && cache != nil {
		assert("flush-after-initial-fetch", ghostCount("cache.write.call") >= 1)
		if ghostCount("cache.write") > 0 {
			var got map[string]*cachedSecret
			assert("cache-doc-decodes", jsonBlobAs(cache.content, &got))
			assert("cache-holds-active-set", verifSameCached(got, s.active.m))
		}
	}
	reach("end-ok")
}

func verifDocValid(doc map[string]*cachedSecret) bool {
	return mapAll(doc, func(name string, cs *cachedSecret) bool {
		if cs == nil || cs.Secret == nil {
			return false
		}
		return name != ""
	})
}

// Misconfiguration is an error, never a panic or a request.
func verifHarnessC10Misconfig() {
	verifEnvReset()
	client := &verifInitClient{svc: map[string]*api.SecretValue{}}
	ctx := &verifCtx{tag: "init"}
	switch nondetChoice("case", 4) {
	case 3:
		// what NewFileClient hands back together with its error, passed on regardless: a client that is no client
		var none *FileClient
		s, err := NewStore(ctx, StoreConfig{Client: none, Secrets: []string{"a"}, Logf: verifLogf, PollInterval: -1})
		assert("nil-file-client-is-error", and(s == nil, err != nil))
	case 0:
		s, err := NewStore(ctx, StoreConfig{Secrets: []string{"a"}, Logf: verifLogf})
		assert("no-client-is-error", and(s == nil, err != nil))
	case 1:
		s, err := NewStore(ctx, StoreConfig{Client: client, Logf: verifLogf, PollInterval: -1})
		assert("no-secrets-without-lookup-is-error", and(s == nil, err != nil))
	case 2:
		s, err := NewStore(ctx, StoreConfig{Client: client, Logf: verifLogf, PollInterval: -1, AllowLookup: true})
		assert("no-secrets-with-lookup-ok", and(s != nil, err == nil))
	}
	assert("no-request", len(client.names) == 0)
	reach("end")
}

// A file-backed client fails at once when a declared secret is absent.
func verifHarnessC10FileClient() {
	verifEnvReset()
	fc := &FileClient{path: "secrets.json", db: map[string]*api.SecretValue{}}
	mapPutIf(fc.db, nondetString("file.name"), &api.SecretValue{Value: nondetSeq("file.val"), Version: api.SecretVersion(nondetU32("file.ver"))}, nondetBool("file.p"))
	name := nondetString("declared")
	ctx := &verifCtx{tag: "init"}
	s, err := NewStore(ctx, StoreConfig{Client: fc, Secrets: []string{name}, PollInterval: -1, Logf: verifLogf, TimeNow: verifTimeNow})
	assert("no-waiting-with-file-client", len(verifSleeps) == 0)
	if name != "" && mapHas(fc.db, name) {
		assert("present-ok", and(s != nil, err == nil))
		reach("end-present")
		return
	}
	assert("absent-fails-at-once", and(s == nil, err != nil))
	reach("end-absent")
}

// C13(c): a cache document is accepted by the file-backed client with identical results for every non-empty secret.
func verifHarnessC13FileClientReadsCache() {
	verifEnvReset()
	verifFSReset()
	m := map[string]*cachedSecret{}
	for i := 0; i < param("names"); i++ {
		mapPutIf(m, nondetString("st.name"), verifSymCached(nondetBool("st.declared")), nondetBool("st.p"))
	}
	assume(mapAll(m, func(n string, _ *cachedSecret) bool { return n != "" }))
	doc, _ := json.Marshal(m)
	verifFS.files["/cache/secrets.json"] = &verifInode{content: doc, complete: true, mode: 0600}
	fc, err := NewFileClient("/cache/secrets.json")
	assert("accepted", and(err == nil, fc != nil))
	name := nondetString("name")
	sv, gerr := fc.Get(verifBackground(), name)
	cs := m[name]
	if cs != nil && cs.Secret.Version > 0 && len(cs.Secret.Value) != 0 {
		assert("same-result", and(gerr == nil, sv != nil))
		assert("same-pair", and(sv.Version == cs.Secret.Version, bytesEq(sv.Value, cs.Secret.Value)))
		sv2, cerr := fc.GetIfChanged(verifBackground(), name, cs.Secret.Version)
		assert("conditional-unchanged", and(sv2 == nil, cerr == api.ErrValueNotChanged))
		reach("end-present")
		return
	}
	if cs == nil {
		assert("absent-notfound", and(sv == nil, gerr == api.ErrNotFound))
		reach("end-absent")
	}
}

// C13(d): the file cache is replaced atomically, owner-only (real atomicfile over the FS model).
func verifHarnessC13FileCacheWrite() {
	verifEnvReset()
	verifFSReset()
	path := "/cache/dir/secrets.json"
	verifFS.livePath = path
	old := nondetSeq("old.content")
	var oldIno *verifInode
	exists := nondetBool("live.exists")
	if exists {
		// whatever mode the existing file has (provisioning, an operator's chmod)
		oldIno = &verifInode{content: old, complete: true, durable: old, durableOK: true, mode: os.FileMode(nondetU32("old.mode") & 0777), written: true}
		verifFS.files[path] = oldIno
	}
	data := nondetSeq("new.content")
	verifFS.faults, verifFS.crashes = true, true
	crashed := false
	var err error
	func() {
		defer func() {
			if r := recover(); r != nil {
				if _, ok := r.(verifCrash); ok {
					crashed = true
					return
				}
				panic(r)
			}
		}()
		err = FileCache(path).Write(data)
	}()
	verifFS.faults, verifFS.crashes = false, false
	live := verifFS.files[path]
	if crashed {
		if exists {
			assert("crash-live-still-present", live != nil)
		}
		if live != nil {
			assert("crash-old-or-new", and(live.durableOK, or(sameBacking(live.durable, old), sameBacking(live.durable, data))))
		}
		reach("end-crash")
		return
	}
	if err != nil {
		assert("error-leaves-old-document", live == oldIno)
		reach("end-error")
		return
	}
	assert("ok-new-document", and(live != nil, sameBacking(live.content, data), live.durableOK, live.mode == 0600))
	got, rerr := FileCache(path).Read()
	assert("read-back", and(rerr == nil, sameBacking(got, data)))
	reach("end-ok")
}

var _ = atomicfile.WriteFile

// C13(a): the poller flushes the cache when it shuts down.
func verifHarnessC13ShutdownFlush() {
	verifEnvReset()
	client := &verifClient{}
	cache := &verifCache{mayFail: true}
	s := verifSymStore(param("names"), client, cache)
	assume(verifStoreInv(s))
	ctx := &verifCtx{tag: "poller", cancelled: true}
	done := make(chan struct{})
	tick := &verifTicker{}
	s.newTicker = func(time.Duration) Ticker { return tick }
	pre := snapshot(s.active.m)
	s.run(ctx, time.Hour, done)
	assert("flushed-on-shutdown", ghostCount("cache.write.call") == 1)
	if ghostCount("cache.write") == 1 {
		var got map[string]*cachedSecret
		assert("cache-doc-decodes", jsonBlobAs(cache.content, &got))
		assert("cache-holds-active-set", verifSameCached(got, s.active.m))
	}
	assert("state-unchanged", deepEq(s.active.m, pre))
	assert("lock-released", notHeld(&s.active.Mutex))
	assert("ticker-stopped", tick.stopped)
	reach("end")
}

type verifTicker struct {
	stopped bool
	dones   int
	ready   bool
}

func (t *verifTicker) Chan() <-chan time.Time { return envChan[time.Time]("ticker", t.ready) }
func (t *verifTicker) Stop()                  { t.stopped = true }
func (t *verifTicker) Done()                  { t.dones++ }

// ---- struct-tagged declarations (ParseFields replaced by a hand-built field list: tag parsing is outside, see C20) ----

// Three shapes with real tags, so that natively the real ParseFields yields the same field lists.
type verifTagged1 struct {
	A []byte `setec:"tagged/a"`
}
type verifTagged2 struct {
	A []byte `setec:"tagged/a"`
	B []byte `setec:"tagged/b"`
}
type verifTagged3 struct {
	A []byte `setec:"tagged/a"`
	B []byte `setec:"tagged/a"`
}

func verifStubParseFields(obj any, prefix string) (*Fields, error) {
	f := &Fields{prefix: prefix}
	switch t := obj.(type) {
	case *verifTagged1:
		f.fields = []fieldInfo{{fieldName: "A", secretName: "tagged/a", value: reflect.ValueOf(&t.A), vtype: bytesType}}
	case *verifTagged2:
		f.fields = []fieldInfo{{fieldName: "A", secretName: "tagged/a", value: reflect.ValueOf(&t.A), vtype: bytesType},
			{fieldName: "B", secretName: "tagged/b", value: reflect.ValueOf(&t.B), vtype: bytesType}}
	case *verifTagged3:
		f.fields = []fieldInfo{{fieldName: "A", secretName: "tagged/a", value: reflect.ValueOf(&t.A), vtype: bytesType},
			{fieldName: "B", secretName: "tagged/a", value: reflect.ValueOf(&t.B), vtype: bytesType}}
	default:
		return nil, verifErrInjected
	}
	return f, nil
}

// Declared names may come from Secrets and from struct tags, with duplicates across and within both.
func verifHarnessC10NewStoreStructs() {
	verifEnvReset()
	// tag names are concrete (path.Join is applied to them); which of them the listed names repeat is symbolic
	var target any
	var fieldA *[]byte
	var verifTagNames []string
	switch nondetChoice("tags", 3) {
	case 0:
		t := &verifTagged1{}
		target, fieldA, verifTagNames = t, &t.A, []string{"tagged/a"}
	case 1:
		t := &verifTagged2{}
		target, fieldA, verifTagNames = t, &t.A, []string{"tagged/a", "tagged/b"}
	case 2:
		t := &verifTagged3{}
		target, fieldA, verifTagNames = t, &t.A, []string{"tagged/a", "tagged/a"}
	}
	listed := []string{nondetString("declared")}
	svc := map[string]*api.SecretValue{}
	all := append(append([]string{}, listed...), verifTagNames...)
	for _, nm := range all {
		if _, dup := svc[nm]; !dup {
			svc[nm] = &api.SecretValue{Value: nondetSeq("svc.val"), Version: api.SecretVersion(nondetU32("svc.ver"))}
		}
	}
	client := &verifInitClient{svc: svc, maxFails: 0}
	ctx := &verifCtx{tag: "init"}
	cfg := StoreConfig{Client: client, Secrets: append([]string(nil), listed...), Structs: []Struct{{Value: target}},
		PollInterval: -1, Logf: verifLogf, TimeNow: verifTimeNow}
	if nondetBool("with.cache") {
		// a cache that already holds one of the names
		doc := map[string]*cachedSecret{}
		mapPutIf(doc, nondetString("cache.name"), verifSymCached(false), true)
		bs, _ := json.Marshal(doc)
		cfg.Cache = &verifCache{content: bs}
	}

	s, err := NewStore(ctx, cfg)

	if listed[0] == "" {
		assert("empty-name-rejected", and(s == nil, err != nil))
		reach("end-empty")
		return
	}
	assert("constructed", and(s != nil, err == nil))
	for _, nm := range all {
		cs := s.active.m[nm]
		if cs == nil {
			assert("declared-name-has-value", false)
			return
		}
		assert("declared-name-has-value", and(cs.Secret != nil, cs.Declared))
	}
	norefetch := true
	for j := range client.names {
		for i := 0; i < j; i++ {
			norefetch = and(norefetch, client.names[i] != client.names[j])
		}
	}
	assert("each-name-fetched-at-most-once", norefetch)
	assert("struct-field-populated", bytesEq(*fieldA, s.active.m["tagged/a"].Secret.Value))
	reach("end-ok")
}

// The back-off between rounds doubles from 1ms and is capped at 4096ms (concrete 14-round run, one declared secret that never arrives).
func verifHarnessC10Backoff() {
	verifEnvReset()
	client := &verifInitClient{svc: map[string]*api.SecretValue{}, maxFails: 14}
	ctx := &verifCtx{tag: "init"}
	s, err := NewStore(ctx, StoreConfig{Client: client, Secrets: []string{"never"}, PollInterval: -1, Logf: verifLogf, TimeNow: verifTimeNow})
	assert("gives-up-with-error-when-context-ends", and(s == nil, err != nil))
	assert("fourteen-pauses", len(verifSleeps) == 14)
	for k, d := range verifSleeps {
		assert("backoff-capped-doubling", d == verifExpectedBackoff(k))
		assert("never-more-than-a-few-seconds", d <= 4096*time.Millisecond)
	}
	assert("no-request-after-giving-up", len(client.names) == 15)
	reach("end")
}

// Close stops the poller and waits for it; handles keep working afterwards.
func verifHarnessC12Close() {
	verifEnvReset()
	client := &verifClient{}
	s := verifSymStore(param("names"), client, nil)
	assume(verifStoreInv(s))
	s.active.f = map[string]Secret{}
	name := nondetString("name")
	assume(mapHas(s.active.m, name))
	h := s.Secret(name)
	want := append([]byte(nil), s.active.m[name].Secret.Value...)
	done := make(chan struct{})
	close(done)
	s.done = done
	cancelled := false
	s.cancel = func() { cancelled = true }
	err := s.Close()
	assert("close-ok", and(err == nil, cancelled))
	assert("handle-still-serves-after-close", bytesEq(h.Get(), want))
	assert("no-request", client.requests == 0)
	reach("end")
}

// NewFileCache: directory created owner-only; a non-regular path is refused.
func verifHarnessC13NewFileCache() {
	verifEnvReset()
	verifFSReset()
	verifMkdirs = nil
	path := "/cache/dir/secrets.json"
	kind := nondetChoice("existing", 3)
	switch kind {
	case 1:
		verifFS.files[path] = &verifInode{mode: 0600, complete: true}
	case 2:
		verifFS.files[path] = &verifInode{dir: true}
	}
	fc, err := NewFileCache(path)
	if kind == 2 {
		assert("non-regular-path-refused", err != nil)
		reach("end-refused")
		return
	}
	assert("accepted", and(err == nil, string(fc) == path))
	assert("directory-owner-only", and(len(verifMkdirs) == 1, verifMkdirs[0] == 0700))
	reach("end")
}

var verifMkdirs []os.FileMode

func verifStubMkdirAll(p string, perm os.FileMode) error {
	verifMkdirs = append(verifMkdirs, perm)
	return nil
}

func verifStubLstat(name string) (os.FileInfo, error) { return verifStubStat(name) }

// C13: a flush whose Write failed must not be taken as done — the next flush site writes the whole set again.
func verifHarnessC13FlushAfterFailedWrite() {
	verifEnvReset()
	client := &verifClient{}
	cache := &verifFlakyCache{}
	s := verifSymStore(param("names"), client, cache)
	assume(verifStoreInv(s))
	// step 1: a poll installs something while the cache is unwritable
	updates := map[string]*api.SecretValue{}
	for _, sl := range verifSlots {
		mapPutIf(updates, sl.name, &api.SecretValue{Value: nondetSeq("upd.val"), Version: api.SecretVersion(nondetU32("upd.ver"))}, and(sl.present, nondetBool("upd.p")))
	}
	cache.failing = true
	err := s.applyUpdates(updates)
	if len(updates) > 0 {
		assert("failed-flush-reported", err != nil)
	}
	// step 2: the cache works again; the poller shuts down (no further change in between)
	cache.failing = false
	ctx := &verifCtx{tag: "poller", cancelled: true}
	tick := &verifTicker{}
	s.newTicker = func(time.Duration) Ticker { return tick }
	done := make(chan struct{})
	s.run(ctx, time.Hour, done)
	assert("shutdown-flush-writes-after-an-earlier-failure", cache.writes == 1)
	if cache.writes == 1 {
		var got map[string]*cachedSecret
		assert("cache-doc-decodes", jsonBlobAs(cache.content, &got))
		assert("cache-holds-active-set", verifSameCached(got, s.active.m))
	}
	reach("end")
}

type verifFlakyCache struct {
	content []byte
	failing bool
	writes  int
}

func (c *verifFlakyCache) Write(data []byte) error {
	if c.failing {
		return verifErrInjected
	}
	c.content = append([]byte(nil), data...)
	c.writes++
	return nil
}

func (c *verifFlakyCache) Read() ([]byte, error) { return c.content, nil }

// C11/C13: a cache write that fails during one poll must not leave the cache behind for good: the next poll that
// completes without error leaves the cache holding what the store yields, also when that poll finds nothing new.
func verifHarnessC11PollAfterFailedFlush() {
	verifEnvReset()
	client := &verifClient{}
	cache := &verifFlakyCache{}
	s := verifSymStore(param("names"), client, cache)
	assume(verifStoreInv(s))
	assume(not(mapAny(s.active.m, func(_ string, cs *cachedSecret) bool { return cs.LastAccess < 0 }))) // nothing expires in this scenario
	s.expiryAge = 0
	// poll 1: the service has moved (or not) and the cache cannot be written
	cache.failing = true
	err1 := s.Refresh(verifBackground())
	changed := cache.failing && err1 != nil
	_ = changed
	// poll 2: the cache works again, the service has not changed since poll 1
	cache.failing = false
	err2 := s.Refresh(verifBackground())
	assert("second-poll-completes-without-error", err2 == nil)
	if err1 != nil {
		// poll 1 installed something and failed to persist it
		assert("an-error-free-poll-leaves-the-cache-holding-what-the-store-yields", cache.writes >= 1)
		if cache.writes >= 1 {
			var got map[string]*cachedSecret
			assert("cache-doc-decodes", jsonBlobAs(cache.content, &got))
			assert("cache-holds-active-set", verifSameCached(got, s.active.m))
		}
		reach("end-repaired")
	}
	reach("end")
}
