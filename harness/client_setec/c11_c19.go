package setec

import (
	"context"
	"errors"
	"math/big"
	"strings"
	"time"
)

// C11/C19: one Refresh from an arbitrary store state against an arbitrary service state.
func verifHarnessC11Refresh() {
	verifEnvReset()
	client := &verifClient{mayFail: true, mayLack: true}
	cache := &verifCache{mayFail: true}
	s := verifSymStore(param("names"), client, cache)
	assume(verifStoreInv(s))
	verifNowSec = nondetMathI64("now")
	assume(and(verifNowSec >= 0, verifNowSec < 1<<40))
	assume(mapAll(s.active.m, func(_ string, cs *cachedSecret) bool { return and(cs.LastAccess >= 0, cs.LastAccess <= verifNowSec) }))
	pre := snapshot(s.active.m)
	hadHandle := snapshot(s.active.f)
	now := verifNowSec

	rctx := &verifCtx{tag: "refresh"}
	client.mayCancel = rctx // the caller may give up between two requests of the poll
	// another caller's poll (say the background tick) may be in flight: this refresh joins it, and this caller may give up first
	verifSF.joinPoll = true
	verifSF.onJoin = func() { rctx.cancelled = true }

	err := s.Refresh(rctx)

	assert("inv", verifStoreInv(s))
	assert("lock-released", notHeld(&s.active))
	if ghostCount("sf.joined") > 0 {
		assert("joiner-that-gives-up-reports-its-context-error", errors.Is(err, context.Canceled))
		assert("joining-refresh-sends-no-requests-of-its-own", client.requests == 0)
		assert("joining-refresh-changes-nothing-itself", deepEq(s.active.m, pre))
		reach("end-joined-gave-up")
		return
	}
	if symbolic() {
		assert("poll-runs-inside-one-singleflight", len(verifSF.keys) == 1)
		assert("poll-coalesced-under-a-key-that-is-not-a-lookup-key", not(strings.HasPrefix(verifSF.keys[0], "lookup:")))
	}
	failed := ghostCount("svc.failed") > 0 || ghostCount("svc.notfound") > 0
	// C19: a name is dropped only if undeclared, expiry configured, stale, and without a handle (whatever the service answered)
	assert("only-stale-unreferenced-undeclared-expire", mapAll(pre, func(name string, old *cachedSecret) bool {
		dropped := not(mapHas(s.active.m, name))
		age := timeAgeNS(now, old.LastAccess)
		mayDrop := and(not(old.Declared), s.expiryAge > 0, age > int64(s.expiryAge), not(mapHas(hadHandle, name)))
		return implies(dropped, mayDrop)
	}))
	if err != nil {
		assert("error-only-from-failed-request-or-cache-or-own-cancellation", or(failed, ghostCount("cache.write.call") > ghostCount("cache.write"), rctx.cancelled))
	}
	if failed {
		assert("failed-poll-reports-error", err != nil)
		assert("failed-poll-applies-nothing", deepEq(s.active.m, pre))
		reach("end-failed")
		return
	}
	// successful poll: every secret still known is at the service's version
	assert("converged", mapAll(s.active.m, func(name string, cs *cachedSecret) bool {
		sv := client.svc[name]
		old := pre[name]
		if sv == nil || old == nil {
			return false
		}
		same := old.Secret.Version == sv.Version
		return and(cs.Secret.Version == sv.Version,
			implies(same, bytesEq(cs.Secret.Value, old.Secret.Value)),
			implies(not(same), bytesEq(cs.Secret.Value, sv.Value)))
	}))
	assert("nothing-added", mapAll(s.active.m, func(name string, _ *cachedSecret) bool { return mapHas(pre, name) }))
	assert("access-times-and-declared-kept", mapAll(s.active.m, func(name string, cs *cachedSecret) bool {
		old := pre[name]
		if old == nil {
			return false
		}
		return and(cs.LastAccess == old.LastAccess, cs.Declared == old.Declared)
	}))
	changed := not(deepEq(s.active.m, pre))
	if ghostCount("cache.write") > 0 {
		var got map[string]*cachedSecret
		assert("cache-doc-decodes", jsonBlobAs(cache.content, &got))
		assert("cache-holds-post-state", verifSameCached(got, s.active.m))
	} else {
		assert("change-flushed-unless-cache-write-failed", implies(changed, ghostCount("cache.write.call") > 0))
	}
	reach("end-ok")
}

// the cache document drops Declared; everything else must agree
func verifSameCached(doc, m map[string]*cachedSecret) bool {
	a := mapAll(m, func(name string, cs *cachedSecret) bool {
		d := doc[name]
		if d == nil || d.Secret == nil || cs == nil || cs.Secret == nil {
			return false
		}
		return and(d.Secret.Version == cs.Secret.Version, bytesEq(d.Secret.Value, cs.Secret.Value), d.LastAccess == cs.LastAccess, !d.Declared)
	})
	b := mapAll(doc, func(name string, _ *cachedSecret) bool { return mapHas(m, name) })
	return and(a, b)
}

// C19: hasExpired predicate against the statement, for all stamps and ages
func verifHarnessC19HasExpired() {
	verifEnvReset()
	s := &Store{timeNow: verifTimeNow, logf: verifLogf}
	s.expiryAge = time.Duration(nondetMathI64("expiryAge"))
	verifNowSec = nondetMathI64("now")
	assume(and(verifNowSec >= -62135596800, verifNowSec < 1<<40))
	cs := &cachedSecret{LastAccess: nondetMathI64("access"), Declared: nondetBool("declared")}
	assume(and(cs.LastAccess >= -62135596800, cs.LastAccess < 1<<40))
	got := s.hasExpired(cs)
	age := timeAgeNS(verifNowSec, cs.LastAccess)
	want := and(not(cs.Declared), s.expiryAge > 0, age > int64(s.expiryAge))
	// "only if": the property bounds expiry from one side (an implementation may be more conservative, e.g. allow for
	// the resolution of the stamps); that expiry happens at all is witnessed by reach("end-expired")
	assert("expiry-predicate", implies(got, want))
	if s.expiryAge <= 0 {
		assert("no-expiry-age-no-expiry", !got)
	}
	if got {
		reach("end-expired")
	}
	reach("end")
}

// C19 with a clock finer than the stamps: the stamp of a read is the whole second it happened in, the read itself may
// have happened at any instant of that second. A secret is dropped ONLY IF it has not been read for longer than the age:
// whatever the fractions, expiry implies that the real time since the read exceeds the age.
func verifHarnessC19SubSecond() {
	verifEnvReset()
	s := &Store{timeNow: verifTimeNow, logf: verifLogf}
	s.expiryAge = time.Duration(nondetMathI64("expiryAge"))
	verifNowSec = nondetMathI64("now")
	verifNowFrac = nondetMathI64("now.frac")
	readFrac := nondetMathI64("read.frac")
	assume(and(verifNowSec >= 1, verifNowSec < 1<<40, verifNowFrac >= 0, verifNowFrac < 1000000000, readFrac >= 0, readFrac < 1000000000))
	cs := &cachedSecret{LastAccess: nondetMathI64("access"), Declared: nondetBool("declared")}
	// any stamp a cache may carry, also one in the future or absurdly far away (stamp 0 means "never read" and is the
	// whole-second harness's business)
	assume(and(cs.LastAccess != 0, cs.LastAccess > -(1<<62), cs.LastAccess < 1<<62))
	got := s.hasExpired(cs)
	assert("dropped-only-if-really-unread-for-longer-than-the-age", implies(got, and(not(cs.Declared), s.expiryAge > 0,
		verifRealAgeExceeds(verifNowSec, verifNowFrac, cs.LastAccess, readFrac, int64(s.expiryAge)))))
	reach("end")
}

// verifRealAgeExceeds: (nowSec·10^9 + nowFrac) − (accSec·10^9 + readFrac) > age, over the integers. Under the engine the
// harness's arithmetic on clock quantities is mathematical; natively the products overflow int64 for far-away stamps,
// so the native side computes with math/big.
func verifRealAgeExceeds(nowSec, nowFrac, accSec, readFrac, age int64) bool {
	if symbolic() {
		return (nowSec*1000000000+nowFrac)-(accSec*1000000000+readFrac) > age
	}
	e9 := big.NewInt(1000000000)
	now := new(big.Int).Add(new(big.Int).Mul(big.NewInt(nowSec), e9), big.NewInt(nowFrac))
	read := new(big.Int).Add(new(big.Int).Mul(big.NewInt(accSec), e9), big.NewInt(readFrac))
	return new(big.Int).Sub(now, read).Cmp(big.NewInt(age)) > 0
}

// C19: a read through a handle stamps the last-access time; C12: returns the installed bytes without blocking
func verifHarnessC19HandleStamps() {
	verifEnvReset()
	client := &verifClient{}
	s := verifSymStore(param("names"), client, nil)
	assume(verifStoreInv(s))
	s.active.f = map[string]Secret{}
	verifNowSec = nondetMathI64("now")
	name := nondetString("name")
	assume(or(s.allowLookup, mapHas(s.active.m, name))) // the panic for unknown names without lookup is C16's
	h := s.Secret(name)
	if h == nil {
		assert("unknown-name-nil-only-with-lookup", and(s.allowLookup, not(mapHas(s.active.m, name))))
		reach("end-unknown")
		return
	}
	pre := snapshot(s.active.m)
	req0 := client.requests
	v := h.Get()
	assert("no-request", client.requests == req0)
	assert("lock-released", notHeld(&s.active))
	cs := s.active.m[name]
	assert("still-known", cs != nil)
	assert("own-value", and(bytesEq(v, cs.Secret.Value), bytesEq(v, pre[name].Secret.Value)))
	assert("stamped-now", cs.LastAccess == verifNowSec)
	assert("others-untouched", mapAll(s.active.m, func(n string, c *cachedSecret) bool {
		return or(n == name, deepEq(c, pre[n]))
	}))
	assert("handle-registered", mapHas(s.active.f, name))
	reach("end-known")
}

// C11: the poll ticker is created with interval + jitter, |jitter| <= interval/10, for every interval and every rand.Intn result.
func verifHarnessC11Jitter() {
	verifEnvReset()
	client := &verifClient{}
	s := verifSymStore(0, client, nil)
	interval := time.Duration(nondetI64("interval"))
	assume(interval > 0) // every positive interval: a few nanoseconds and "practically never" (MaxInt64) included
	var got time.Duration
	ticks := 0
	tick := &verifTicker{}
	s.newTicker = func(d time.Duration) Ticker { got = d; ticks++; return tick }
	ctx := &verifCtx{tag: "poller", cancelled: true}
	done := make(chan struct{})
	s.run(ctx, interval, done)
	assert("one-ticker", ticks == 1)
	tenth := interval / 10
	assert("ticker-period-is-positive", got > 0)
	assert("within-ten-percent", and(got-interval >= -tenth, got-interval <= tenth)) // differences: interval+tenth itself may overflow
	assert("ticker-stopped", tick.stopped)
	reach("end")
}

// C11: the background loop — one poll per tick, the tick acknowledged, errors do not stop it, cancellation ends it with a flush.
func verifHarnessC11RunLoop() {
	verifEnvReset()
	client := &verifClient{mayFail: true}
	cache := &verifCache{}
	s := verifSymStore(1, client, cache)
	assume(verifStoreInv(s))
	ticks := 0
	maxTicks := param("ticks")
	ctx := &verifCtx{tag: "poller"}
	tk := &verifLoopTicker{}
	tk.ch = envChanDyn[time.Time]("ticker", func() bool { return !ctx.cancelled }, func() {
		ticks++
		if ticks > maxTicks {
			ctx.cancelled = true // the owner eventually closes the store in any case
		}
	})
	s.newTicker = func(time.Duration) Ticker { return tk }
	// the owner closes the store after some ticks
	polls := 0
	tk.onDone = func() {
		polls++
		if polls >= maxTicks || nondetBool("close.now") {
			ctx.cancelled = true
		}
	}
	done := make(chan struct{})
	s.run(ctx, time.Hour, done)
	assert("one-poll-per-tick", ghostCount("sf.dochan") == ticks)
	assert("every-tick-acknowledged", polls == ticks)
	assert("ticker-stopped", tk.stopped)
	assert("flushed-on-exit", ghostCount("cache.write.call") >= 1)
	assert("lock-released", notHeld(&s.active.Mutex))
	reach("end")
}

type verifLoopTicker struct {
	ch      <-chan time.Time
	stopped bool
	onDone  func()
}

func (t *verifLoopTicker) Chan() <-chan time.Time { return t.ch }
func (t *verifLoopTicker) Stop()                  { t.stopped = true }
func (t *verifLoopTicker) Done()                  { t.onDone() }
