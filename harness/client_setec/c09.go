package setec

import (
	"bytes"
	"context"
	"encoding/json"
	"errors"
	"io"
	"net/http"

	"github.com/tailscale/setec/types/api"
)

// C09 (client legs): the network client's request shape and status mapping, and the file-backed client.

type verifRespBody struct {
	doc       []byte
	closed    int
	readFails bool
}

func (b *verifRespBody) Read(p []byte) (int, error) { return 0, io.EOF }
func (b *verifRespBody) Close() error               { b.closed++; return nil }
func (b *verifRespBody) VerifDoc() []byte           { return b.doc }

var verifHTTP struct {
	reqDocs [][]byte
	urls    []string
	methods []string
	headers map[string]string
	readers map[*bytes.Reader][]byte
}

func verifStubNewRequest(ctx context.Context, method, url string, body io.Reader) (*http.Request, error) {
	rd, _ := body.(*bytes.Reader)
	verifHTTP.reqDocs = append(verifHTTP.reqDocs, verifHTTP.readers[rd])
	verifHTTP.urls = append(verifHTTP.urls, url)
	verifHTTP.methods = append(verifHTTP.methods, method)
	return &http.Request{Method: method, Header: http.Header{}}, nil
}

func verifStubBytesNewReaderC09(b []byte) *bytes.Reader {
	r := new(bytes.Reader)
	verifHTTP.readers[r] = b
	return r
}

func verifStubHeaderSetC09(h http.Header, key, value string) { verifHTTP.headers[key] = value }

func verifStubReadAllC09(r io.Reader) ([]byte, error) {
	b, ok := r.(*verifRespBody)
	if !ok {
		return nil, errors.New("verif: unmodelled reader")
	}
	if b.readFails {
		return nil, verifErrInjected
	}
	return b.doc, nil
}

func verifStubTrimSpaceOpaque(b []byte) []byte { return b }

func verifHarnessC09Client() {
	verifEnvReset()
	verifHTTP.reqDocs, verifHTTP.urls, verifHTTP.methods = nil, nil, nil
	verifHTTP.headers = map[string]string{}
	verifHTTP.readers = map[*bytes.Reader][]byte{}
	status := nondetInt("status")
	transportFails := nondetBool("transport.fails")
	served := &api.SecretValue{Value: nondetSeq("served.val"), Version: api.SecretVersion(nondetU32("served.ver"))}
	var respDoc []byte
	garbage := nondetBool("resp.garbage")
	if garbage {
		respDoc = nondetSeq("resp.bytes")
	} else {
		respDoc, _ = json.Marshal(served)
	}
	body := &verifRespBody{doc: respDoc, readFails: nondetBool("body.read.fails")}
	calls := 0
	c := Client{Server: "https://setec.example/", DoHTTP: func(r *http.Request) (*http.Response, error) {
		calls++
		if transportFails {
			return nil, verifErrInjected
		}
		return &http.Response{StatusCode: status, Body: body}, nil
	}}
	name := nondetString("name")
	v := api.SecretVersion(nondetU32("version"))

	sv, err := c.GetIfChanged(verifBackground(), name, v)

	assert("one-request", and(calls == 1, len(verifHTTP.reqDocs) == 1))
	assert("post-to-api-get", and(verifHTTP.methods[0] == "POST", verifHTTP.urls[0] == "https://setec.example/api/get"))
	assert("gate-headers-sent", and(verifHTTP.headers["Content-Type"] == "application/json", verifHTTP.headers["Sec-X-Tailscale-No-Browsers"] == "setec"))
	var req api.GetRequest
	assert("request-decodes", jsonBlobAs(verifHTTP.reqDocs[0], &req))
	if v == 0 {
		assert("zero-version-is-a-plain-get", and(req.Name == name, req.Version == 0, !req.UpdateIfChanged))
	} else {
		assert("conditional-request", and(req.Name == name, req.Version == v, req.UpdateIfChanged))
	}
	if transportFails {
		assert("transport-error-surfaces", and(sv == nil, err != nil, !errors.Is(err, api.ErrValueNotChanged), !errors.Is(err, api.ErrNotFound), !errors.Is(err, api.ErrAccessDenied)))
		reach("end-transport")
		return
	}
	assert("body-closed", body.closed == 1)
	if body.readFails {
		assert("read-error-surfaces", and(sv == nil, err != nil))
		reach("end-read-error")
		return
	}
	switch {
	case status == 200:
		if !garbage {
			assert("ok-decodes", err == nil)
			assert("ok-value-is-the-served-one", and(sv != nil, sv.Version == served.Version, bytesEq(sv.Value, served.Value)))
		}
		reach("end-200")
	case status == 304:
		assert("304-is-not-changed", and(sv == nil, err == api.ErrValueNotChanged))
		reach("end-304")
	case status == 404:
		assert("404-is-not-found", and(sv == nil, err == api.ErrNotFound))
	case status == 403:
		assert("403-is-access-denied", and(sv == nil, err == api.ErrAccessDenied))
	default:
		assert("other-status-is-another-error", and(sv == nil, err != nil, !errors.Is(err, api.ErrValueNotChanged), !errors.Is(err, api.ErrNotFound), !errors.Is(err, api.ErrAccessDenied)))
		reach("end-other")
	}
}

// the file-backed client
func verifHarnessC09FileClient() {
	verifEnvReset()
	fc := &FileClient{path: "secrets.json", db: map[string]*api.SecretValue{}}
	for i := 0; i < param("names"); i++ {
		mapPutIf(fc.db, nondetString("file.name"), &api.SecretValue{Value: nondetSeq("file.val"), Version: api.SecretVersion(nondetU32("file.ver"))}, nondetBool("file.p"))
	}
	// what NewFileClient guarantees about the table (decided on the real constructor in verifHarnessC09FileClientLoad)
	assume(mapAll(fc.db, func(_ string, sv *api.SecretValue) bool { return sv != nil && sv.Version >= 1 }))
	pre := snapshot(fc.db)
	name := nondetString("name")
	v := api.SecretVersion(nondetU32("version"))
	sv, err := fc.GetIfChanged(verifBackground(), name, v)
	have := pre[name]
	if v == 0 && have != nil {
		assert("version-zero-ignores-the-flag", and(err == nil, sv != nil, sv.Version == have.Version, bytesEq(sv.Value, have.Value)))
	}
	if have == nil {
		assert("absent-not-found", and(sv == nil, err == api.ErrNotFound))
		reach("end-absent")
		return
	}
	if have.Version == v {
		assert("same-version-not-changed", and(sv == nil, err == api.ErrValueNotChanged))
		reach("end-same")
		return
	}
	assert("different-version-delivers-it", and(err == nil, sv != nil, sv.Version == have.Version, bytesEq(sv.Value, have.Value)))
	reach("end-changed")
}

// C09, file-backed client through its real constructor: whatever the file holds (versions 0 included, empty values,
// missing secrets), a conditional get with V = 0 behaves exactly like a plain get, and every entry the client serves has
// a version of at least 1 (so "not changed" can only ever be answered for a V the caller really holds).
func verifHarnessC09FileClientLoad() {
	verifEnvReset()
	verifFSReset()
	m := map[string]*cachedSecret{}
	for i := 0; i < param("names"); i++ {
		mapPutIf(m, nondetString("st.name"), verifSymCached(false), nondetBool("st.p"))
	}
	doc, _ := json.Marshal(m)
	verifFS.files["/etc/secrets.json"] = &verifInode{content: doc, complete: true, mode: 0600}
	fc, err := NewFileClient("/etc/secrets.json")
	assert("accepted", and(err == nil, fc != nil))
	name := nondetString("name")
	g, gerr := fc.Get(verifBackground(), name)
	c, cerr := fc.GetIfChanged(verifBackground(), name, 0)
	if gerr != nil {
		assert("version-zero-ignores-the-flag", and(c == nil, cerr == gerr))
		reach("end-absent")
		return
	}
	assert("served-entries-have-a-real-version", g.Version >= 1)
	assert("version-zero-ignores-the-flag", and(cerr == nil, c != nil, c.Version == g.Version, bytesEq(c.Value, g.Value)))
	v := api.SecretVersion(nondetU32("version"))
	c2, cerr2 := fc.GetIfChanged(verifBackground(), name, v)
	if v != 0 {
		assert("not-changed-iff-V-is-the-held-version", (cerr2 == api.ErrValueNotChanged) == (v == g.Version))
		if v != g.Version {
			assert("otherwise-the-held-value", and(cerr2 == nil, c2 != nil, c2.Version == g.Version))
		}
	}
	reach("end-present")
}
