package setec

import (
	"bytes"
	"context"
	"encoding/json"
	"errors"
	"io"
	"net/http"

	"github.com/tailscale/setec/types/api"
)

// C09 (client legs): the network client's request shape and status mapping, and the file-backed client.

type verifRespBody struct {
	doc       []byte
	closed    int
	readFails bool
}

func (b *verifRespBody) Read(p []byte) (int, error) { return 0, io.EOF }
func (b *verifRespBody) Close() error               { b.closed++; return nil }
func (b *verifRespBody) VerifDoc() []byte           { return b.doc }

var verifHTTP struct {
	reqDocs [][]byte
	urls    []string
	methods []string
	headers map[string]string
	readers map[*bytes.Reader][]byte
}

func verifStubNewRequest(ctx context.Context, method, url string, body io.Reader) (*http.Request, error) {
	rd, _ := body.(*bytes.Reader)
	verifHTTP.reqDocs = append(verifHTTP.reqDocs, verifHTTP.readers[rd])
	verifHTTP.urls = append(verifHTTP.urls, url)
	verifHTTP.methods = append(verifHTTP.methods, method)
	return &http.Request{Method: method, Header: http.Header{}}, nil
}

func verifStubBytesNewReaderC09(b []byte) *bytes.Reader {
	r := new(bytes.Reader)
	verifHTTP.readers[r] = b
	return r
}

func verifStubHeaderSetC09(h http.Header, key, value string) { verifHTTP.headers[key] = value }

func verifStubReadAllC09(r io.Reader) ([]byte, error) {
	b, ok := r.(*verifRespBody)
	if !ok {
		return nil, errors.New("verif: unmodelled reader")
	}
	if b.readFails {
		return nil, verifErrInjected
	}
	return b.doc, nil
}

func verifStubTrimSpaceOpaque(b []byte) []byte { return b }

func verifHarnessC09Client() {
	verifEnvReset()
	verifHTTP.reqDocs, verifHTTP.urls, verifHTTP.methods = nil, nil, nil
	verifHTTP.headers = map[string]string{}
	verifHTTP.readers = map[*bytes.Reader][]byte{}
	status := nondetInt("status")
	transportFails := nondetBool("transport.fails")
	served := &api.SecretValue{Value: nondetSeq("served.val"), Version: api.SecretVersion(nondetU32("served.ver"))}
	var respDoc []byte
	garbage := nondetBool("resp.garbage")
	if garbage {
		respDoc = nondetSeq("resp.bytes")
	} else {
		respDoc, _ = json.Marshal(served)
	}
	body := &verifRespBody{doc: respDoc, readFails: nondetBool("body.read.fails")}
	calls := 0
	c := Client{Server: "https://setec.example/", DoHTTP: func(r *http.Request) (*http.Response, error) {
		calls++
		if transportFails {
			return nil, verifErrInjected
		}
		return &http.Response{StatusCode: status, Body: body}, nil
	}}
	name := nondetString("name")
	v := api.SecretVersion(nondetU32("version"))

	sv, err := c.GetIfChanged(verifBackground(), name, v)

	assert("one-request", and(calls == 1, len(verifHTTP.reqDocs) == 1))
	assert("post-to-api-get", and(verifHTTP.methods[0] == "POST", verifHTTP.urls[0] == "https://setec.example/api/get"))
	assert("gate-headers-sent", and(verifHTTP.headers["Content-Type"] == "application/json", verifHTTP.headers["Sec-X-Tailscale-No-Browsers"] == "setec"))
	var req api.GetRequest
	assert("request-decodes", jsonBlobAs(verifHTTP.reqDocs[0], &req))
	if v == 0 {
		assert("zero-version-is-a-plain-get", and(req.Name == name, req.Version == 0, !req.UpdateIfChanged))
	} else {
		assert("conditional-request", and(req.Name == name, req.Version == v, req.UpdateIfChanged))
	}
	if transportFails {
		assert("transport-error-surfaces", and(sv == nil, err != nil, !errors.Is(err, api.ErrValueNotChanged), !errors.Is(err, api.ErrNotFound), !errors.Is(err, api.ErrAccessDenied)))
		reach("end-transport")
		return
	}
	assert("body-closed", body.closed == 1)
	if body.readFails {
		assert("read-error-surfaces", and(sv == nil, err != nil))
		reach("end-read-error")
		return
	}
	switch {
	case status == 200:
		if !garbage {
			assert("ok-decodes", err == nil)
			assert("ok-value-is-the-served-one", and(sv != nil, sv.Version == served.Version, bytesEq(sv.Value, served.Value)))
		}
		reach("end-200")
	case status == 304:
		assert("304-is-not-changed", and(sv == nil, err == api.ErrValueNotChanged))
		reach("end-304")
	case status == 404:
		assert("404-is-not-found", and(sv == nil, err == api.ErrNotFound))
	case status == 403:
		assert("403-is-access-denied", and(sv == nil, err == api.ErrAccessDenied))
	default:
		assert("other-status-is-another-error", and(sv == nil, err != nil, !errors.Is(err, api.ErrValueNotChanged), !errors.Is(err, api.ErrNotFound), !errors.Is(err, api.ErrAccessDenied)))
		reach("end-other")
	}
}

// the file-backed client
func verifHarnessC09FileClient() {
	verifEnvReset()
	fc := &FileClient{path: "secrets.json", db: map[string]*api.SecretValue{}}
	for i := 0; i < param("names"); i++ {
		mapPutIf(fc.db, nondetString("file.name"), &api.SecretValue{Value: nondetSeq("file.val"), Version: api.SecretVersion(nondetU32("file.ver"))}, nondetBool("file.p"))
	}
	pre := snapshot(fc.db)
	name := nondetString("name")
	v := api.SecretVersion(nondetU32("version"))
	sv, err := fc.GetIfChanged(verifBackground(), name, v)
	have := pre[name]
	if have == nil {
		assert("absent-not-found", and(sv == nil, err == api.ErrNotFound))
		reach("end-absent")
		return
	}
	if have.Version == v {
		assert("same-version-not-changed", and(sv == nil, err == api.ErrValueNotChanged))
		reach("end-same")
		return
	}
	assert("different-version-delivers-it", and(err == nil, sv != nil, sv.Version == have.Version, bytesEq(sv.Value, have.Value)))
	reach("end-changed")
}
