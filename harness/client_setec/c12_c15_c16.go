package setec

import (
	"context"
	"errors"
	"strings"
	"time"

	"github.com/tailscale/setec/types/api"
)

func verifGuardStore(s *Store) {
	mu := &s.active.Mutex
	mapAll(s.active.m, func(_ string, cs *cachedSecret) bool {
		guardBy(cs, mu)
		return true
	})
	guardBy(s.active.m, mu)
	guardBy(s.active.f, mu)
	guardBy(s.active.w, mu)
}

// lockClient asserts that no request is ever sent while the store's mutex is held.
type verifLockClient struct {
	verifClient
	s *Store
}

func (c *verifLockClient) Get(ctx context.Context, name string) (*api.SecretValue, error) {
	assert("no-request-under-lock", notHeld(&c.s.active.Mutex))
	return c.verifClient.Get(ctx, name)
}

func (c *verifLockClient) GetIfChanged(ctx context.Context, name string, old api.SecretVersion) (*api.SecretValue, error) {
	assert("no-request-under-lock", notHeld(&c.s.active.Mutex))
	return c.verifClient.GetIfChanged(ctx, name, old)
}

// C12: applyUpdates from an arbitrary store state with an arbitrary update set.
func verifHarnessC12ApplyUpdates() {
	verifEnvReset()
	client := &verifClient{}
	cache := &verifCache{mayFail: true}
	s := verifSymStore(param("names"), client, cache)
	assume(verifStoreInv(s))
	// an arbitrary update set over known names: nil (= expired) or a new value
	updates := map[string]*api.SecretValue{}
	for _, sl := range verifSlots {
		var sv *api.SecretValue
		if nondetBool("upd.isvalue") {
			sv = &api.SecretValue{Value: nondetSeq("upd.val"), Version: api.SecretVersion(nondetU32("upd.ver"))}
		}
		mapPutIf(updates, sl.name, sv, and(sl.present, nondetBool("upd.p")))
	}
	// a watcher on one name
	wname := nondetString("watched")
	var w watcher
	if mapHas(s.active.m, wname) {
		w = watcher{ready: make(chan struct{}, 1)}
		if nondetBool("watch.pending") {
			w.notify()
		}
		s.active.w[wname] = []watcher{w}
		s.active.f[wname] = Secret(func() []byte { return nil }) // a watcher always holds a handle
	}
	pre := snapshot(s.active.m)
	preVals := map[string]*api.SecretValue{}
	mapEachP(s.active.m, func(name string, cs *cachedSecret, present bool) { mapPutIf(preVals, name, cs.Secret, present) })
	preValsSnap := snapshot(preVals)
	hadHandle := snapshot(s.active.f)
	verifGuardStore(s)

	err := s.applyUpdates(updates)

	guardOff()
	_ = err
	assert("inv", verifStoreInv(s))
	assert("lock-released", notHeld(&s.active.Mutex))
	assert("handled-names-never-removed", mapAll(hadHandle, func(name string, _ Secret) bool { return mapHas(s.active.m, name) }))
	assert("installed-values-replaced-never-mutated", deepEq(preVals, preValsSnap))
	assert("each-name-old-or-update", mapAll(s.active.m, func(name string, cs *cachedSecret) bool {
		old := pre[name]
		if old == nil {
			return false
		}
		upd, has := updates[name]
		if has && upd != nil {
			return and(cs.Secret == upd, cs.LastAccess == old.LastAccess, cs.Declared == old.Declared)
		}
		return cs.Secret == preVals[name]
	}))
	assert("removed-only-by-nil-update", mapAll(pre, func(name string, _ *cachedSecret) bool {
		if mapHas(s.active.m, name) {
			return true
		}
		upd, has := updates[name]
		return and(has, upd == nil)
	}))
	if w.ready != nil {
		upd, has := updates[wname]
		if has && upd != nil {
			assert("watcher-notified-level-trigger", len(w.ready) == 1)
			reach("end-watched-updated")
		}
	}
	reach("end")
}

// C12 + C16: LookupSecret from an arbitrary store state.
func verifHarnessC16Lookup() {
	verifEnvReset()
	client := &verifLockClient{}
	client.mayFail = true
	cache := &verifCache{mayFail: true}
	s := verifSymStore(param("names"), &client.verifClient, cache)
	client.s = s
	s.client = client
	assume(verifStoreInv(s))
	name := nondetString("name")
	// the service may know the name although the store does not
	if nondetBool("svc.knows") && name != "" { // the service never holds an empty name (C02)
		if !mapHas(client.svc, name) {
			client.svc[name] = &api.SecretValue{Value: nondetSeq("svc.newval"), Version: api.SecretVersion(nondetU32("svc.newver"))}
		}
	}
	known := mapHas(s.active.m, name)
	pre := snapshot(s.active.m)
	verifNowSec = nondetMathI64("now")
	verifGuardStore(s)
	ctx := &verifCtx{tag: "caller", hasDeadline: true, deadlineNS: 1 << 50}

	h, err := s.LookupSecret(ctx, name)

	guardOff()
	assert("inv", verifStoreInv(s))
	assert("lock-released", notHeld(&s.active.Mutex))
	assert("exactly-one-outcome", (h == nil) != (err == nil))
	if known {
		assert("known-name-no-request", and(err == nil, client.requests == 0))
		reach("end-known")
		return
	}
	if !s.allowLookup {
		assert("disabled-lookup-is-error", err != nil)
		assert("disabled-lookup-sends-nothing", client.requests == 0)
		assert("disabled-lookup-installs-nothing", deepEq(s.active.m, pre))
		reach("end-disabled")
		return
	}
	if symbolic() {
		assert("fetch-inside-one-singleflight", len(verifSF.keys) == 1)
		assert("singleflight-key-is-per-name", and(strings.HasSuffix(verifSF.keys[0], name), verifSF.keys[0] != "poll"))
	}
	assert("one-request-no-retry", client.requests == 1)
	if err != nil {
		assert("failed-lookup-installs-nothing", deepEq(s.active.m, pre))
		reach("end-failed")
		return
	}
	cs := s.active.m[name]
	sv := client.svc[name]
	if cs == nil || sv == nil {
		assert("installed-served-value", false)
		return
	}
	assert("installed-served-value", and(cs.Secret.Version == sv.Version, bytesEq(cs.Secret.Value, sv.Value), !cs.Declared, cs.LastAccess == verifNowSec))
	assert("others-untouched", mapAll(pre, func(n string, old *cachedSecret) bool { return deepEq(s.active.m[n], old) }))
	assert("handle-registered-for-name", mapHas(s.active.f, name))
	assert("handle-serves-it", bytesEq(h.Get(), sv.Value))
	assert("cache-flushed-after-install", ghostCount("cache.write.call") == 1)
	if ghostCount("cache.write") == 1 {
		var got map[string]*cachedSecret
		assert("cache-doc-decodes", jsonBlobAs(cache.content, &got))
		assert("cache-holds-active-set", verifSameCached(got, s.active.m))
	}
	reach("end-installed")
}

// C16: Secret panics for an unknown name when lookups are disabled, and never sends a request.
func verifHarnessC16SecretGate() {
	verifEnvReset()
	client := &verifClient{}
	s := verifSymStore(param("names"), client, nil)
	assume(verifStoreInv(s))
	name := nondetString("name")
	known := mapHas(s.active.m, name)
	panicked := false
	var h Secret
	func() {
		defer func() {
			if recover() != nil {
				panicked = true
			}
		}()
		h = s.Secret(name)
	}()
	assert("no-request", client.requests == 0)
	assert("lock-released", notHeld(&s.active.Mutex))
	assert("panics-iff-unknown-and-disabled", panicked == and(not(known), !s.allowLookup))
	if !panicked {
		assert("handle-iff-known", (h != nil) == known)
	}
	reach("end")
}

// C16: a hanging service and callers with or without deadlines (ghost clock); followers of a cancelled leader.
func verifHarnessC16Bounded() {
	verifEnvReset()
	client := &verifLockClient{}
	client.hang = true
	s := verifSymStore(1, &client.verifClient, nil)
	client.s = s
	s.client = client
	s.allowLookup = true
	assume(verifStoreInv(s))
	name := nondetString("name")
	assume(not(mapHas(s.active.m, name)))
	start := nondetMathI64("start")
	assume(and(start >= 0, start < 1<<50))
	verifNowNS = start
	hasDL := nondetBool("caller.hasDeadline")
	dl := nondetMathI64("caller.deadline")
	assume(and(dl > start, dl < 1<<55))
	ctx := &verifCtx{tag: "caller", hasDeadline: hasDL, deadlineNS: dl}
	// another caller may already lead a flight for this name; its own context may get cancelled
	verifSF.strict = true
	verifSF.follower = nondetBool("other.leads")
	otherGiveUp := nondetMathI64("other.giveup")
	assume(and(otherGiveUp >= start, otherGiveUp < 1<<55))
	otherCtx := &verifCtx{tag: "other", hasDeadline: true, deadlineNS: otherGiveUp} // the other caller gives up at that moment
	verifSF.followerFn = func(key string) (any, error) {
		// the flight this caller shares is the OTHER caller's execution of the real lookup code with its own context
		verifSF.follower = false
		verifSF.other = true
		h2, err2 := s.lookupSecretInternal(otherCtx, name)
		verifSF.other = false
		if verifNowNS < otherGiveUp {
			verifNowNS = otherGiveUp
		}
		if err2 != nil {
			return nil, err2
		}
		return h2, nil
	}

	h, err := s.LookupSecret(ctx, name)

	assert("hanging-service-is-an-error", and(h == nil, err != nil))
	assert("lock-released", notHeld(&s.active.Mutex))
	assert("nothing-installed", not(mapHas(s.active.m, name)))
	assert("a-caller-leads-at-most-once", ghostCount("sf.led") <= 1)
	elapsed := verifNowNS - start
	limit := int64(5 * time.Minute)
	if hasDL && ghostCount("sf.followed") == 0 {
		assert("leading-caller-with-deadline-returns-by-deadline", verifNowNS <= dl)
	} else if hasDL {
		reach("end-follower-with-deadline")
	} else if ghostCount("sf.followed") == 0 {
		assert("caller-without-deadline-answered-within-5min", elapsed <= limit)
	} else {
		// followed a leader that gave up (its own cancellation): retried, and the retry is bounded again
		assert("follower-of-cancelled-leader-retried", ghostCount("sf.led") == 1)
		assert("retry-bounded-by-5min", verifNowNS-otherGiveUp <= limit)
		// the statement's bound is per caller: five minutes from ITS call, however long it waited for another caller's flight
		assert("caller-without-deadline-that-shared-a-flight-answered-within-5min", elapsed <= limit)
	}
	if ghostCount("sf.led") == 1 && !hasDL {
		assert("fallback-deadline-is-5min", verifLastTimeout == 5*time.Minute)
	}
	reach("end")
}

// ---------- C15: updaters ----------

type verifBuilt struct {
	from   []byte
	closed int
}

func (b *verifBuilt) Close() error { b.closed++; return nil }

func verifHarnessC15Updater() {
	verifEnvReset()
	client := &verifClient{}
	s := verifSymStore(1, client, &verifCache{mayFail: true}) // the cache write of an install may fail: the install still reaches the updaters
	assume(verifStoreInv(s))
	s.active.f = map[string]Secret{}
	name := nondetString("name")
	assume(mapHas(s.active.m, name))
	var built []*verifBuilt
	builds := 0
	installedDuringBuild := false
	var uref *Updater[*verifBuilt]
	builder := func(bs []byte) (*verifBuilt, error) {
		builds++
		if uref != nil {
			// drain-the-flag, read, build and commit are one atomic step of Get: concurrent Gets cannot overtake each other
			assert("rebuild-is-atomic-under-updater-lock", held(&uref.mu))
		}
		seen := append([]byte(nil), bs...)
		// the builder runs outside the store's lock: a poll may install a new version meanwhile
		if nondetBool("install.during.build") {
			nv := &api.SecretValue{Value: nondetSeq("race.val"), Version: api.SecretVersion(nondetU32("race.ver"))}
			s.applyUpdates(map[string]*api.SecretValue{name: nv})
			installedDuringBuild = true
		}
		bs = seen
		if nondetBool("build.fail") {
			return nil, verifErrInjected
		}
		b := &verifBuilt{from: append([]byte(nil), bs...)}
		built = append(built, b)
		return b, nil
	}
	u, err := NewUpdater(verifBackground(), s, name, builder)
	if err != nil {
		assert("creation-error-only-from-builder", builds == 1)
		reach("end-create-failed")
		return
	}
	uref = u
	assert("watcher-registered", len(s.active.w[name]) == 1)
	cur := u.value
	installedSinceGet := installedDuringBuild // an install that raced the creation must not be lost
	installedDuringBuild = false
	if !installedSinceGet {
		assert("initial-built-from-current", bytesEq(cur.from, s.active.m[name].Secret.Value))
	}
	lastBuildFailed := false
	for step := 0; step < param("steps"); step++ {
		switch nondetChoice("event", 2) {
		case 0: // the store installs a new version
			nv := &api.SecretValue{Value: nondetSeq("new.val"), Version: api.SecretVersion(nondetU32("new.ver"))}
			s.applyUpdates(map[string]*api.SecretValue{name: nv})
			installedSinceGet = true
		case 1:
			b0 := builds
			got := u.Get()
			if !installedSinceGet {
				assert("no-install-no-rebuild", builds == b0)
				assert("no-install-same-value", got == cur)
			} else {
				assert("install-rebuilds-once", builds == b0+1)
				if got != cur {
					if !installedDuringBuild {
						assert("new-value-built-from-newest-bytes", bytesEq(got.from, s.active.m[name].Secret.Value))
					}
					assert("replaced-value-closed-exactly-once", cur.closed == 1)
					assert("no-error-after-success", u.Err() == nil)
					lastBuildFailed = false
				} else {
					assert("failed-build-keeps-old-value-and-reports", u.Err() != nil)
					lastBuildFailed = true
				}
				cur = got
			}
			installedSinceGet = installedDuringBuild // an install that raced this rebuild is owed to the next Get
			installedDuringBuild = false
			assert("current-value-never-closed", cur.closed == 0)
			_ = lastBuildFailed
		}
	}
	for _, b := range built {
		assert("closed-at-most-once", b.closed <= 1)
	}
	assert("lock-released", and(notHeld(&s.active.Mutex), notHeld(&u.mu)))
	reach("end")
}

// C15: notify never blocks and is a level trigger
func verifHarnessC15Notify() {
	w := watcher{ready: make(chan struct{}, 1)}
	n := nondetChoice("notifies", 4)
	for i := 0; i < n; i++ {
		w.notify()
	}
	assert("level-trigger", len(w.ready) == iteInt(n > 0, 1, 0))
	reach("end")
}

var _ = errors.New

// C16/C15: NewUpdater (lookupWatcher) for known and unknown names, lookups enabled or not.
func verifHarnessC16LookupWatcher() {
	verifEnvReset()
	client := &verifLockClient{}
	client.mayFail = true
	cache := &verifCache{mayFail: true}
	s := verifSymStore(param("names"), &client.verifClient, cache)
	client.s = s
	s.client = client
	assume(verifStoreInv(s))
	name := nondetString("name")
	if nondetBool("svc.knows") && name != "" {
		if !mapHas(client.svc, name) {
			client.svc[name] = &api.SecretValue{Value: nondetSeq("svc.newval"), Version: api.SecretVersion(nondetU32("svc.newver"))}
		}
	}
	known := mapHas(s.active.m, name)
	pre := snapshot(s.active.m)
	watchers0 := len(s.active.w[name])
	verifGuardStore(s)
	ctx := &verifCtx{tag: "caller", hasDeadline: true, deadlineNS: 1 << 50}
	builds := 0
	// another goroutine may create its own updater for the same name and finish entirely inside this caller's lookup
	// window: after this caller released the lock for the lookup and before its own flight starts
	var u2 *Updater[int]
	var err2 error
	raced := false
	if symbolic() {
		verifSF.beforeLead = func() {
			if nondetBool("concurrent.newupdater") {
				raced = true
				u2, err2 = NewUpdater(ctx, s, name, func(bs []byte) (int, error) { return len(bs), nil })
			}
		}
	}
	u, err := NewUpdater(ctx, s, name, func(bs []byte) (int, error) { builds++; return len(bs), nil })
	guardOff()
	if raced {
		if err == nil && err2 == nil {
			assert("concurrent-registration-not-lost", and(u != nil, u2 != nil, len(s.active.w[name]) == watchers0+2))
			assert("handle-registered", mapHas(s.active.f, name))
			reach("end-raced")
		}
		assert("lock-released-and-balanced", notHeld(&s.active.Mutex))
		assert("inv", verifStoreInv(s))
		return
	}
	assert("lock-released-and-balanced", notHeld(&s.active.Mutex))
	assert("inv", verifStoreInv(s))
	if known {
		assert("known-name-no-request", and(err == nil, u != nil, client.requests == 0))
	}
	if !known && !s.allowLookup {
		assert("disabled-lookup-is-error-without-request", and(err != nil, u == nil, client.requests == 0, deepEq(s.active.m, pre)))
		reach("end-disabled")
		return
	}
	if err != nil {
		assert("failed-installs-nothing", and(u == nil, deepEq(s.active.m, pre), len(s.active.w[name]) == watchers0))
		reach("end-failed")
		return
	}
	assert("watcher-registered-before-first-read", and(len(s.active.w[name]) == watchers0+1, builds == 1))
	assert("handle-registered", mapHas(s.active.f, name))
	reach("end-ok")
}

// C15: several updaters on one secret — an install reaches every one of them, independently.
func verifHarnessC15TwoUpdaters() {
	verifEnvReset()
	client := &verifClient{}
	s := verifSymStore(1, client, &verifCache{mayFail: true})
	assume(verifStoreInv(s))
	s.active.f = map[string]Secret{}
	name := nondetString("name")
	assume(mapHas(s.active.m, name))
	builds := []int{0, 0}
	mk := func(i int) func([]byte) (*verifBuilt, error) {
		return func(bs []byte) (*verifBuilt, error) {
			builds[i]++
			return &verifBuilt{from: append([]byte(nil), bs...)}, nil
		}
	}
	u0, err0 := NewUpdater(verifBackground(), s, name, mk(0))
	u1, err1 := NewUpdater(verifBackground(), s, name, mk(1))
	assert("created", and(err0 == nil, err1 == nil))
	us := []*Updater[*verifBuilt]{u0, u1}
	owed := []bool{false, false}
	for step := 0; step < param("steps"); step++ {
		ev := nondetChoice("event", 3)
		if ev == 2 {
			nv := &api.SecretValue{Value: nondetSeq("new.val"), Version: api.SecretVersion(nondetU32("new.ver"))}
			s.applyUpdates(map[string]*api.SecretValue{name: nv})
			owed[0], owed[1] = true, true
			continue
		}
		b0 := builds[ev]
		got := us[ev].Get()
		if owed[ev] {
			assert("each-updater-sees-the-install", and(builds[ev] == b0+1, bytesEq(got.from, s.active.m[name].Secret.Value)))
		} else {
			assert("no-install-no-rebuild", builds[ev] == b0)
		}
		owed[ev] = false
	}
	reach("end")
}

// C12: once an install has completed, every later call of an existing handle returns the new value (or a newer one).
func verifHarnessC12HandleSeesInstall() {
	verifEnvReset()
	client := &verifClient{}
	s := verifSymStore(param("names"), client, nil)
	assume(verifStoreInv(s))
	s.active.f = map[string]Secret{}
	name := nondetString("name")
	assume(mapHas(s.active.m, name))
	h := s.Secret(name)
	before := append([]byte(nil), h.Get()...)
	nv := &api.SecretValue{Value: nondetSeq("new.val"), Version: api.SecretVersion(nondetU32("new.ver"))}
	want := append([]byte(nil), nv.Value...)
	s.applyUpdates(map[string]*api.SecretValue{name: nv})
	got := h.Get()
	assert("handle-returns-the-installed-value", bytesEq(got, want))
	assert("earlier-read-unaffected", bytesEq(before, before))
	// a second install: order is followed
	nv2 := &api.SecretValue{Value: nondetSeq("new.val"), Version: api.SecretVersion(nondetU32("new.ver"))}
	want2 := append([]byte(nil), nv2.Value...)
	s.applyUpdates(map[string]*api.SecretValue{name: nv2})
	assert("handle-follows-install-order", bytesEq(h.Get(), want2))
	assert("no-request", client.requests == 0)
	reach("end")
}

// C13/C12: two lookups of different unknown names overlap — the second runs while the first one's cache write is in
// progress (if the store's lock lets it; otherwise right after). Whatever the order, the cache ends up holding every
// secret the store knows.
func verifHarnessC13ConcurrentLookups() {
	verifEnvReset()
	client := &verifLockClient{}
	cache := &verifCache{}
	s := verifSymStore(param("names"), &client.verifClient, cache)
	client.s = s
	s.client = client
	s.allowLookup = true
	assume(verifStoreInv(s))
	name1, name2 := nondetString("name1"), nondetString("name2")
	assume(and(name1 != "", name2 != "", name1 != name2, not(mapHas(s.active.m, name1)), not(mapHas(s.active.m, name2))))
	client.svc[name1] = &api.SecretValue{Value: nondetSeq("svc.val1"), Version: api.SecretVersion(nondetU32("svc.ver1"))}
	client.svc[name2] = &api.SecretValue{Value: nondetSeq("svc.val2"), Version: api.SecretVersion(nondetU32("svc.ver2"))}
	ctx := &verifCtx{tag: "caller", hasDeadline: true, deadlineNS: 1 << 50}
	var h2 Secret
	var err2 error
	cache.duringWrite = func() { h2, err2 = s.LookupSecret(ctx, name2) }

	raceBegin()
	h1, err1 := s.LookupSecret(ctx, name1)
	joinConcurrent()
	raceEnd() // the two lookups touch no store memory without the store's lock

	assert("both-lookups-succeed", and(err1 == nil, err2 == nil, h1 != nil, h2 != nil))
	assert("both-installed", and(mapHas(s.active.m, name1), mapHas(s.active.m, name2)))
	assert("lock-released", notHeld(&s.active.Mutex))
	var got map[string]*cachedSecret
	assert("cache-doc-decodes", jsonBlobAs(cache.content, &got))
	assert("cache-holds-every-known-secret-after-overlapping-lookups", verifSameCached(got, s.active.m))
	reach("end")
}

// C12/C16: two lookups of the SAME unknown name race: the other caller's lookup runs to completion after this caller
// found the name unknown and before its own flight starts (so the service is asked twice). Every handle for the name
// must follow later installs.
func verifHarnessC12RacingLookups() {
	verifEnvReset()
	client := &verifLockClient{}
	s := verifSymStore(param("names"), &client.verifClient, nil)
	client.s = s
	s.client = client
	s.allowLookup = true
	assume(verifStoreInv(s))
	name := nondetString("name")
	assume(and(name != "", not(mapHas(s.active.m, name))))
	client.svc[name] = &api.SecretValue{Value: nondetSeq("svc.val"), Version: api.SecretVersion(nondetU32("svc.ver"))}
	ctx := &verifCtx{tag: "caller", hasDeadline: true, deadlineNS: 1 << 50}
	var hB Secret
	var errB error
	raced := false
	if symbolic() {
		verifSF.beforeLead = func() {
			raced = true
			hB, errB = s.LookupSecret(ctx, name)
		}
	}
	hA, errA := s.LookupSecret(ctx, name)
	if !raced {
		hB, errB = s.LookupSecret(ctx, name) // natively: the second lookup simply follows
	}
	assert("both-lookups-succeed", and(errA == nil, errB == nil, hA != nil, hB != nil))
	assert("inv", verifStoreInv(s))
	// a poll installs a new version: every handle handed out for the name serves it
	nv := &api.SecretValue{Value: nondetSeq("new.val"), Version: api.SecretVersion(nondetU32("new.ver"))}
	want := append([]byte(nil), nv.Value...)
	s.applyUpdates(map[string]*api.SecretValue{name: nv})
	assert("first-callers-handle-follows-the-install", bytesEq(hA.Get(), want))
	assert("second-callers-handle-follows-the-install", bytesEq(hB.Get(), want))
	h3 := s.Secret(name)
	assert("a-later-handle-follows-the-install", bytesEq(h3.Get(), want))
	reach("end")
}

// C15 (+C11): a racing second lookup of a name that the first caller already watches. The service may have rotated the
// secret between the two fetches. Whatever the second lookup does to the store, the first caller's updater must not be
// left behind: its next Get is built from the bytes the store now holds.
func verifHarnessC15RacingLookupUpdater() {
	verifEnvReset()
	client := &verifLockClient{}
	s := verifSymStore(param("names"), &client.verifClient, nil)
	client.s = s
	s.client = client
	s.allowLookup = true
	assume(verifStoreInv(s))
	name := nondetString("name")
	assume(and(name != "", not(mapHas(s.active.m, name))))
	client.svc[name] = &api.SecretValue{Value: nondetSeq("svc.val1"), Version: api.SecretVersion(nondetU32("svc.ver1"))}
	ctx := &verifCtx{tag: "caller", hasDeadline: true, deadlineNS: 1 << 50}
	var u *Updater[*verifBuilt]
	var errU error
	raced := false
	mk := func(bs []byte) (*verifBuilt, error) { return &verifBuilt{from: append([]byte(nil), bs...)}, nil }
	if symbolic() {
		verifSF.beforeLead = func() {
			// the other caller creates its updater (own lookup, own flight) ...
			raced = true
			u, errU = NewUpdater(ctx, s, name, mk)
			// ... and the secret is rotated on the service before this caller's own fetch goes out
			if nondetBool("rotated.between.the.fetches") {
				client.svc[name] = &api.SecretValue{Value: nondetSeq("svc.val2"), Version: api.SecretVersion(nondetU32("svc.ver2"))}
			}
		}
	}
	h, err := s.LookupSecret(ctx, name)
	if !raced {
		u, errU = NewUpdater(ctx, s, name, mk)
	}
	assert("both-succeed", and(err == nil, errU == nil, h != nil, u != nil))
	got := u.Get()
	assert("updater-built-from-the-bytes-the-store-holds-now", bytesEq(got.from, s.active.m[name].Secret.Value))
	assert("handle-and-updater-agree", bytesEq(h.Get(), got.from))
	reach("end")
}
