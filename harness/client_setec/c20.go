package setec

import (
	"encoding"
	"slices"
	"strings"

	"github.com/tailscale/setec/types/api"
)

type verifTarget struct {
	B    []byte `setec:"b"`
	S    string `setec:"s"`
	H    Secret `setec:"h"`
	Skip int
	U    verifBin `setec:"u"` // filled by a custom unmarshaler
}

// C20 (partial): per-type assignment, naming, error isolation. The field list is built by ParseFields itself
// (a hand-built []fieldInfo would tie the check to the present layout of an internal struct).
func verifHarnessC20Apply() {
	verifEnvReset()
	client := &verifClient{mayFail: true, honoursCancel: true, preferFailures: true}
	s := &Store{client: client, logf: verifLogf, timeNow: verifTimeNow, allowLookup: true}
	s.active.m = map[string]*cachedSecret{}
	s.active.f = map[string]Secret{}
	s.active.w = map[string][]watcher{}
	client.svc = map[string]*api.SecretValue{}
	names := []string{"b", "s", "h", "u"}
	vals := map[string][]byte{}
	unknown := 0
	knownAtStart := map[string]bool{}
	for _, n := range names {
		full := "pfx/" + n
		vals[full] = nondetSeq("val." + n)
		sv := &api.SecretValue{Value: vals[full], Version: 1}
		if nondetBool("known." + n) {
			s.active.m[full] = &cachedSecret{Secret: sv}
			knownAtStart[full] = true
		} else {
			client.svc[full] = sv // must be looked up: may fail
			unknown++
		}
	}
	vals = snapshot(vals)
	var t verifTarget
	t.Skip = 7
	f, perr := ParseFields(&t, "pfx")
	assert("supported-shape-accepted", and(perr == nil, f != nil))
	want := f.Secrets()
	assert("names-are-prefix-slash-name", and(len(want) == 4, want[0] == "pfx/b", want[1] == "pfx/s", want[2] == "pfx/h", want[3] == "pfx/u"))

	// the caller's context may end while a lookup is in flight (the caller gives up after any request)
	actx := &verifCtx{tag: "apply"}
	client.mayCancel = actx
	err := f.Apply(actx, s)

	failed := ghostCount("svc.failed") + ghostCount("svc.request.cancelled")
	assert("error-iff-some-lookup-failed", (err != nil) == (failed > 0))
	// a field whose secret the store already holds needs no lookup: it is filled whatever happens to the other fields
	if knownAtStart["pfx/b"] {
		assert("field-of-a-known-secret-is-filled-whatever-else-fails", bytesEq(t.B, vals["pfx/b"]))
	}
	if knownAtStart["pfx/s"] {
		assert("field-of-a-known-secret-is-filled-whatever-else-fails", t.S == string(vals["pfx/s"]))
	}
	if knownAtStart["pfx/h"] {
		assert("field-of-a-known-secret-is-filled-whatever-else-fails", t.H != nil)
	}
	if knownAtStart["pfx/u"] {
		assert("field-of-a-known-secret-is-filled-whatever-else-fails", bytesEq(t.U.got, vals["pfx/u"]))
	}
	assert("untagged-field-untouched", t.Skip == 7)
	okB := mapHas(s.active.m, "pfx/b")
	okS := mapHas(s.active.m, "pfx/s")
	okH := mapHas(s.active.m, "pfx/h")
	okU := mapHas(s.active.m, "pfx/u")
	assert("a-failing-field-does-not-stop-the-others", ghostCount("svc.request") == unknown)
	unfilled := 0
	for _, n := range names {
		if !mapHas(s.active.m, "pfx/"+n) {
			unfilled++
			// a failure does not go unreported: the error names the field or its secret
			msg := err.Error()
			assert("every-failed-field-is-reported", or(strings.Contains(msg, "pfx/"+n), strings.Contains(msg, "\""+strings.ToUpper(n)+"\"")))
		}
	}
	assert("only-fields-whose-own-lookup-failed-stay-unfilled", unfilled == failed)
	if okB {
		assert("bytes-field-equals-secret", bytesEq(t.B, vals["pfx/b"]))
		if len(t.B) > 0 {
			mutate(t.B)
			assert("bytes-field-is-a-private-copy", bytesEq(s.Secret("pfx/b").Get(), vals["pfx/b"]))
		}
	} else {
		assert("failed-field-left-alone", t.B == nil)
	}
	if okS {
		assert("string-field-equals-text", t.S == string(vals["pfx/s"]))
	}
	if okH {
		assert("secret-field-is-live-handle", and(t.H != nil, bytesEq(t.H.Get(), vals["pfx/h"])))
	}
	if okU {
		assert("unmarshaler-received-exact-value", bytesEq(t.U.got, vals["pfx/u"]))
	}
	reach("end")
}

// ---------- tag parsing on a fixed family of struct shapes (values stay symbolic) ----------

type verifBin struct{ got []byte }

func (b *verifBin) UnmarshalBinary(p []byte) error {
	b.got = append([]byte(nil), p...)
	return nil
}

type verifInner struct {
	E string `setec:"embedded"`
}

type verifShapeOK struct {
	B    []byte    `setec:"b"`
	Skip int       // untagged
	S    string    `setec:"s"`
	H    Secret    `setec:"h"`
	U    verifBin  `setec:"u"`
	P    *verifBin `setec:"p"`
	J    string    `setec:"json"` // a secret that happens to be called "json": a name, not the json verb
	verifInner
	other int `json:"other"`
}

type verifShapeBadType struct {
	N int `setec:"n"`
}
type verifShapeEmptyName struct {
	A []byte `setec:""`
}
type verifShapeEmptyNameVerb struct {
	A []byte            `setec:"a"`
	J map[string]string `setec:",json"`
}
type verifShapeNamedJSONBadType struct {
	X float64 `setec:"json"`
}
type verifShapeUnexported struct {
	A []byte `setec:"a"`
	b []byte `setec:"b"` // tagged but not exported: cannot be set
}
type verifInnerA struct {
	X []byte `setec:"xa"`
}
type verifInnerB struct {
	X []byte `setec:"xb"`
}

// two embedded structs with a tagged field of the same name: Go's selector rules make both X ambiguous
type verifShapeCollision struct {
	verifInnerA
	verifInnerB
	Y []byte `setec:"y"`
}

// an outer field hides the embedded tagged field of the same name
type verifShapeShadow struct {
	verifInnerA
	X []byte `setec:"outer"`
}

// a field of an interface type that includes UnmarshalBinary: nothing to unmarshal into while it is nil
type verifShapeIfaceField struct {
	I encoding.BinaryUnmarshaler `setec:"i"`
}
type verifShapeNoTags struct {
	A []byte
}

func verifHarnessC20Parse() {
	verifEnvReset()
	switch nondetChoice("shape", 14) {
	case 13:
		var t verifShapeIfaceField
		_, err := ParseFields(&t, "pfx")
		assert("nil-interface-field-rejected-up-front", err != nil)
	case 11:
		var t verifShapeCollision
		f, err := ParseFields(&t, "pfx")
		ok := err != nil
		if err == nil {
			names := f.Secrets()
			ok = and(len(names) == 3, slices.Contains(names, "pfx/xa"), slices.Contains(names, "pfx/xb"), slices.Contains(names, "pfx/y"))
		}
		assert("every-tagged-field-is-requested-or-the-struct-is-rejected", ok)
	case 12:
		var t verifShapeShadow
		f, err := ParseFields(&t, "pfx")
		ok := err != nil
		if err == nil {
			names := f.Secrets()
			ok = and(len(names) == 2, slices.Contains(names, "pfx/xa"), slices.Contains(names, "pfx/outer"))
		}
		assert("every-tagged-field-is-requested-or-the-struct-is-rejected", ok)
	case 10:
		var t verifShapeUnexported
		_, err := ParseFields(&t, "pfx") // accepting it would end in a reflect panic when the field is set
		assert("unexported-tagged-field-rejected-up-front", err != nil)
	case 8:
		_, err := ParseFields(nil, "pfx")
		assert("nil-argument-rejected", err != nil)
	case 9:
		_, err := ParseFields((*verifShapeOK)(nil), "pfx")
		assert("nil-struct-pointer-rejected", err != nil)
	case 7:
		_, err := ParseFields(&verifShapeNamedJSONBadType{}, "pfx")
		assert("unsupported-type-rejected-also-when-the-name-reads-json", err != nil)
	case 0:
		_, err := ParseFields(&verifShapeBadType{}, "pfx")
		assert("unsupported-field-type-rejected", err != nil)
	case 1:
		_, err := ParseFields(&verifShapeEmptyName{}, "pfx")
		assert("empty-name-rejected", err != nil)
	case 2:
		_, err := ParseFields(&verifShapeEmptyNameVerb{}, "pfx")
		assert("empty-name-with-verb-rejected", err != nil)
	case 3:
		_, err := ParseFields(&verifShapeNoTags{}, "pfx")
		assert("no-tagged-fields-rejected", err != nil)
	case 4:
		_, err := ParseFields(verifShapeOK{}, "pfx")
		assert("non-pointer-rejected", err != nil)
	case 5:
		n := 3
		_, err := ParseFields(&n, "pfx")
		assert("non-struct-rejected", err != nil)
	case 6:
		var t verifShapeOK
		t.Skip = 7
		f, err := ParseFields(&t, "pfx")
		assert("supported-shape-accepted", and(err == nil, f != nil))
		names := f.Secrets()
		assert("requested-names-are-prefix-slash-name-per-tagged-field", and(len(names) == 7,
			names[0] == "pfx/b", names[1] == "pfx/s", names[2] == "pfx/h", names[3] == "pfx/u", names[4] == "pfx/p", names[5] == "pfx/json", names[6] == "pfx/embedded"))
		// populate from a store holding arbitrary values
		client := &verifClient{}
		s := &Store{client: client, logf: verifLogf, timeNow: verifTimeNow}
		s.active.m = map[string]*cachedSecret{}
		s.active.f = map[string]Secret{}
		s.active.w = map[string][]watcher{}
		vals := map[string][]byte{}
		for _, nm := range names {
			vals[nm] = nondetSeq("val")
			s.active.m[nm] = &cachedSecret{Secret: &api.SecretValue{Value: vals[nm], Version: 1}}
		}
		vals = snapshot(vals)
		aerr := f.Apply(verifBackground(), s)
		assert("apply-ok", aerr == nil)
		assert("bytes", bytesEq(t.B, vals["pfx/b"]))
		assert("string", t.S == string(vals["pfx/s"]))
		assert("handle", and(t.H != nil, bytesEq(t.H.Get(), vals["pfx/h"])))
		assert("binary-unmarshaler-value", bytesEq(t.U.got, vals["pfx/u"]))
		assert("binary-unmarshaler-pointer-allocated", and(t.P != nil, bytesEq(t.P.got, vals["pfx/p"])))
		assert("embedded-field", t.E == string(vals["pfx/embedded"]))
		assert("a-secret-named-json-is-held-unaltered", t.J == string(vals["pfx/json"]))
		assert("untagged-untouched", and(t.Skip == 7, t.other == 0))
		assert("no-request", client.requests == 0)
	}
	reach("end")
}

type verifJSONT struct {
	X string
	N int
}

type verifJSONHolder struct {
	J    verifJSONT `setec:"j,json"`
	Skip int
}

// A json-tagged field holds the decoding of the WHOLE secret: a value that is not exactly one JSON document is an error.
func verifHarnessC20JSONField() {
	verifEnvReset()
	client := &verifClient{}
	s := &Store{client: client, logf: verifLogf, timeNow: verifTimeNow}
	s.active.m = map[string]*cachedSecret{}
	s.active.f = map[string]Secret{}
	s.active.w = map[string][]watcher{}
	val := nondetSeq("val")
	s.active.m["pfx/j"] = &cachedSecret{Secret: &api.SecretValue{Value: val, Version: 1}}
	var t verifJSONHolder
	t.Skip = 7
	f, perr := ParseFields(&t, "pfx")
	assert("json-shape-accepted", and(perr == nil, f != nil))
	err := f.Apply(verifBackground(), s)
	cls := jsonClass(val)
	if err == nil {
		assert("accepted-only-if-the-whole-secret-is-one-json-document", cls == 0)
	}
	if cls != 0 {
		assert("ill-formed-secret-is-reported", err != nil)
	}
	assert("untagged-untouched", t.Skip == 7)
	reach("end")
}

// "after construction each field holds that secret's current value": the value is the one the store given to Apply
// serves at that moment. One parsed field list applied a second time -- to the same store after a newer version
// was installed, or to a different store -- fills the fields from that store, as it stands then.
func verifHarnessC20Reapply() {
	verifEnvReset()
	names := []string{"b", "s", "h", "u"}
	mk := func(tag string) (*Store, *verifClient, map[string][]byte) {
		client := &verifClient{}
		s := &Store{client: client, logf: verifLogf, timeNow: verifTimeNow, allowLookup: true}
		s.active.m = map[string]*cachedSecret{}
		s.active.f = map[string]Secret{}
		s.active.w = map[string][]watcher{}
		client.svc = map[string]*api.SecretValue{}
		vals := map[string][]byte{}
		for _, n := range names {
			full := "pfx/" + n
			vals[full] = nondetSeq("val." + tag + "." + n)
			sv := &api.SecretValue{Value: vals[full], Version: 1}
			if nondetBool("known." + tag + "." + n) {
				s.active.m[full] = &cachedSecret{Secret: sv}
			} else {
				client.svc[full] = sv
			}
		}
		return s, client, snapshot(vals)
	}
	var t verifTarget
	f, perr := ParseFields(&t, "pfx")
	assert("supported-shape-accepted", and(perr == nil, f != nil))
	s1, _, _ := mk("one")
	err1 := f.Apply(verifBackground(), s1)
	assert("first-apply-ok", err1 == nil)
	var s2 *Store
	var vals2 map[string][]byte
	if nondetBool("second.apply.same.store") {
		// a newer version of every secret is installed in the same store (as a poll would)
		s2 = s1
		vals2 = map[string][]byte{}
		for _, n := range names {
			full := "pfx/" + n
			vals2[full] = nondetSeq("val.newer." + n)
			s1.active.Lock()
			s1.active.m[full].Secret = &api.SecretValue{Value: vals2[full], Version: 2}
			s1.active.Unlock()
		}
		vals2 = snapshot(vals2)
	} else {
		s2, _, vals2 = mk("two")
	}
	err2 := f.Apply(verifBackground(), s2)
	assert("second-apply-ok", err2 == nil)
	assert("bytes-field-holds-the-current-value-of-the-store-applied", bytesEq(t.B, vals2["pfx/b"]))
	assert("string-field-holds-the-current-value-of-the-store-applied", t.S == string(vals2["pfx/s"]))
	assert("handle-field-serves-the-store-applied", and(t.H != nil, bytesEq(t.H.Get(), vals2["pfx/h"])))
	assert("unmarshaler-received-the-current-value-of-the-store-applied", bytesEq(t.U.got, vals2["pfx/u"]))
	for _, n := range names {
		assert("every-name-is-known-to-the-store-applied", mapHas(s2.active.m, "pfx/"+n))
	}
	reach("end")
}
