package main

import (
	"bytes"
	"context"
	"errors"
	"io"
	"os"
	"unicode/utf8"

	"github.com/creachadair/command"
	"github.com/tailscale/setec/client/setec"
	"github.com/tailscale/setec/types/api"
)

// C18 (CLI leg): the put command's text policy and what it sends.

// verifPolicy is the statement's table, computed with the library's own notions of "valid UTF-8" and "surrounding whitespace".
func verifPolicy(value []byte, verbatim, trim bool) (want []byte, refuse bool) {
	if !utf8.Valid(value) {
		return value, false
	}
	trimmed := bytes.TrimSpace(value)
	if len(trimmed) == len(value) {
		return value, false
	}
	if verbatim {
		return value, false
	}
	if trim {
		return trimmed, false
	}
	return nil, true
}

func verifHarnessC18CheckPutText() {
	value := nondetBytes("input", param("inputlen"))
	orig := append([]byte(nil), value...)
	putArgs.Verbatim = nondetBool("flag.verbatim")
	putArgs.TrimSpace = nondetBool("flag.trim-space")

	got, err := checkPutText(value)

	want, refuse := verifPolicy(orig, putArgs.Verbatim, putArgs.TrimSpace)
	assert("input-not-modified", bytesEq(value, orig))
	if refuse {
		assert("ambiguous-text-refused", and(err != nil, got == nil))
		reach("end-refused")
		return
	}
	assert("accepted", err == nil)
	assert("bytes-per-policy", bytesEq(got, want))
	reach("end-accepted")
}

var verifSent struct {
	calls int
	name  string
	value []byte
}

func verifStubClientPut(c setec.Client, ctx context.Context, name string, value []byte) (api.SecretVersion, error) {
	verifSent.calls++
	verifSent.name = name
	verifSent.value = append([]byte(nil), value...)
	if nondetBool("server.fails") {
		return 0, errors.New("verif: server error")
	}
	return 2, nil
}

var verifInput []byte
var verifReadFails bool

func verifStubReadInputFile(name string) ([]byte, error) {
	if verifReadFails {
		return nil, errors.New("verif: read error")
	}
	return verifInput, nil
}

func verifStubReadAll(r io.Reader) ([]byte, error) {
	if verifReadFails {
		return nil, errors.New("verif: read error")
	}
	return verifInput, nil
}

func verifStubIsTerminal(fd int) bool                    { return false }
func verifStubFd(f *os.File) uintptr                     { return 0 }
func verifStubEnvContext(e *command.Env) context.Context { return nil }

func verifHarnessC18RunPut() {
	clientArgs.Server = "http://setec.example"
	verifSent.calls, verifSent.value = 0, nil
	verifInput = nondetBytes("input", param("inputlen"))
	orig := append([]byte(nil), verifInput...)
	verifReadFails = nondetBool("read.fails")
	putArgs.Verbatim = nondetBool("flag.verbatim")
	putArgs.TrimSpace = nondetBool("flag.trim-space")
	putArgs.EmptyOK = nondetBool("flag.empty-ok")
	putArgs.File = ""
	if nondetBool("from.file") {
		putArgs.File = "secret.txt"
	}
	err := runPut(&command.Env{}, "name/of/secret")

	if verifReadFails {
		assert("read-error-sends-nothing", and(err != nil, verifSent.calls == 0))
		reach("end-read-error")
		return
	}
	want, refuse := verifPolicy(orig, putArgs.Verbatim, putArgs.TrimSpace)
	if refuse {
		assert("ambiguous-text-refused-without-contacting-server", and(err != nil, verifSent.calls == 0))
		reach("end-refused")
		return
	}
	if len(want) == 0 && !putArgs.EmptyOK {
		assert("empty-value-refused-without-contacting-server", and(err != nil, verifSent.calls == 0))
		reach("end-empty-refused")
		return
	}
	assert("sent-once", verifSent.calls == 1)
	assert("sent-exactly-the-policy-bytes", and(bytesEq(verifSent.value, want), verifSent.name == "name/of/secret"))
	reach("end-sent")
}

// ---------- large values: the bytes sent are the bytes read, however long the input is ----------

type verifLimited struct {
	r io.Reader
	n int64
}

func (l *verifLimited) Read(p []byte) (int, error) { return 0, io.EOF }

func verifStubLimitReader(r io.Reader, n int64) io.Reader { return &verifLimited{r, n} }

// reading through a length-limiting wrapper delivers at most its limit
func verifStubReadAllLarge(r io.Reader) ([]byte, error) {
	if lr, ok := r.(*verifLimited); ok {
		if int64(len(verifInput)) > lr.n {
			cut := blobMake("PREFIX-OF-INPUT", verifInput) // a different byte string: the first n bytes only
			assume(int64(len(cut)) == lr.n)
			ghostLog("input.truncated.by.a.limit")
			return cut, nil
		}
	}
	return verifInput, nil
}

func verifStubBinaryInput(p []byte) bool { return false } // the large input is binary: handled verbatim by definition

func verifHarnessC18RunPutLarge() {
	clientArgs.Server = "http://setec.example"
	verifSent.calls, verifSent.value = 0, nil
	verifInput = blobMake("LARGE-BINARY-INPUT") // opaque bytes of any length in 1..2^40-1 (the length is a bit-vector, not a string model)
	verifReadFails = false
	putArgs.Verbatim, putArgs.TrimSpace, putArgs.EmptyOK = nondetBool("flag.verbatim"), nondetBool("flag.trim-space"), nondetBool("flag.empty-ok")
	putArgs.File = ""
	if nondetBool("from.file") {
		putArgs.File = "secret.bin"
	}
	err := runPut(&command.Env{}, "name/of/secret")
	_ = err
	assert("sent-once", verifSent.calls == 1)
	assert("sent-exactly-the-bytes-read-whatever-their-length", bytesEq(verifSent.value, verifInput))
	reach("end")
}
