package acl

import "strings"

// ---------- part 2: Match against glob semantics ----------

func verifPiece(maxLen int) string {
	p := nondetString("piece")
	assume(and(not(strings.Contains(p, "*")), strLenLE(p, maxLen), validText(p)))
	return p
}

func verifMatchVsGlob(k int) {
	pieces := make([]string, k+1)
	pat := ""
	for i := range pieces {
		pieces[i] = verifPiece(param("piecelen"))
		if i > 0 {
			pat += "*"
		}
		pat += pieces[i]
	}
	name := nondetString("name")
	assume(and(strLenLE(name, param("namelen")), validText(name)))
	registerSplit(pat, "*", pieces...)

	got := Secret(pat).Match(name)

	want := globOracle(name, pieces...)
	if k == 0 {
		assert("literal-pattern-matches-only-itself", want == (name == pat))
	}
	assert("match-equals-glob", got == want)
	reach("end")
}

func verifHarnessC07Match0() { verifMatchVsGlob(0) }
func verifHarnessC07Match1() { verifMatchVsGlob(1) }
func verifHarnessC07Match2() { verifMatchVsGlob(2) }
func verifHarnessC07Match3() { verifMatchVsGlob(3) }

// ---------- part 1: rule combinator with Match as an uninterpreted predicate ----------

type verifMatchEntry struct {
	p Secret
	n string
	r bool
}

var verifMatchTable []verifMatchEntry

func verifMatchUF(pat Secret, val string) bool {
	if !symbolic() {
		return pat.Match(val)
	}
	r := nondetBool("M")
	// for native replay prefer instances in which the arbitrary predicate is realised by literal patterns
	replayHint(r == and(string(pat) == val, not(strings.Contains(string(pat), "*"))))
	for _, e := range verifMatchTable {
		assume(implies(and(e.p == pat, e.n == val), r == e.r))
	}
	verifMatchTable = append(verifMatchTable, verifMatchEntry{pat, val, r})
	return r
}

func verifSymRule(maxA, maxS int) Rule {
	var r Rule
	na := nondetChoice("nactions", maxA+2) // maxA+1 means nil
	if na <= maxA {
		r.Action = make([]Action, na)
		for i := range r.Action {
			r.Action[i] = Action(nondetString("action"))
		}
	}
	ns := nondetChoice("nsecrets", maxS+2)
	if ns <= maxS {
		r.Secret = make([]Secret, ns)
		for i := range r.Secret {
			r.Secret[i] = Secret(nondetString("pattern"))
		}
	}
	return r
}

func verifRuleSpec(r Rule, action Action, name string) bool {
	am := false
	for _, a := range r.Action {
		am = or(am, a == action)
	}
	sm := false
	for _, s := range r.Secret {
		sm = or(sm, verifMatchUF(s, name))
	}
	return and(am, sm)
}

func verifHarnessC07Rules() {
	verifMatchTable = nil
	nr := nondetChoice("nrules", param("rules")+2)
	var rules Rules
	if nr <= param("rules") {
		rules = make(Rules, nr)
		for i := range rules {
			rules[i] = verifSymRule(param("actions"), param("patterns"))
		}
	}
	action := Action(nondetString("want.action"))
	name := nondetString("want.name")
	snap := snapshot(rules)

	got := rules.Allow(action, name)

	want := false
	for _, r := range rules {
		want = or(want, verifRuleSpec(r, action, name))
	}
	assert("allow-iff-one-rule-has-action-and-pattern", got == want)
	if len(rules) == 0 {
		assert("empty-set-allows-nothing", !got)
	}
	assert("evaluation-is-pure", deepEq(rules, snap))
	// adding a rule never revokes
	extra := verifSymRule(1, 1)
	more := append(append(Rules{}, rules...), extra)
	if got {
		assert("adding-a-rule-never-revokes", more.Allow(action, name))
	}
	reach("end")
}

// ---------- part 3: one rule with two real patterns (no abstraction of Match): the combination is a plain "or" ----------

func verifRealPattern(stars int) (string, []string) {
	pieces := make([]string, stars+1)
	pat := ""
	for i := range pieces {
		pieces[i] = verifPiece(param("piecelen"))
		if i > 0 {
			pat += "*"
		}
		pat += pieces[i]
	}
	registerSplit(pat, "*", pieces...)
	return pat, pieces
}

func verifHarnessC07RuleReal() {
	p1, pieces1 := verifRealPattern(nondetChoice("stars1", 2))
	p2, pieces2 := verifRealPattern(nondetChoice("stars2", 2))
	name := nondetString("name")
	assume(and(strLenLE(name, param("namelen")), validText(name)))
	act := Action(nondetString("rule.action"))
	want := Action(nondetString("want.action"))
	r := Rule{Action: []Action{act}, Secret: []Secret{Secret(p1), Secret(p2)}}

	got := r.Allow(want, name)

	spec := and(act == want, or(globOracle(name, pieces1...), globOracle(name, pieces2...)))
	assert("rule-allows-iff-action-listed-and-one-whole-pattern-matches-the-whole-name", got == spec)
	got2 := Rules{r}.Allow(want, name)
	assert("rule-set-of-one-agrees", got2 == spec)
	reach("end")
}
