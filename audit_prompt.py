#!/usr/bin/env python3
"""audit_prompt.py <PROP> <root> — prompt for a fresh sub-agent that audits the UNCHANGED code against one property (given only the property text and a scratch worktree)."""
import sys, json
pid, root = sys.argv[1], sys.argv[2]
p = [json.loads(l) for l in open('/verif/properties.jsonl')]
p = [x for x in p if x['id'] == pid][0]
wt = f"{root}/{pid}"
import os
known = open(os.environ['KNOWN_AUDIT']).read().strip() if os.environ.get('KNOWN_AUDIT') else ''
print(f"""You are auditing the Go project tailscale/setec (a secrets service) against ONE semantic property. Your job: decide whether the code AS IT IS violates the property for some input, state, error path, interleaving or configuration — and if so, demonstrate it with a failing test. Do not change any non-test source file.

Property {p['id']}: {p['title']}
Statement: {p['statement']}
Quantified over: {p['quantifier']['text']}
Code anchors: files {', '.join(p['anchors']['files'])}

Your scratch worktree (create it yourself, work ONLY there): run
  git -C /repo worktree add --detach {wt}
then work exclusively inside {wt}. Never modify anything under /repo itself, never commit, never run `git stash`. Do not read or write anything under /verif. There is no network: use `export GOFLAGS=-mod=mod GOPROXY=off` and do NOT set GOSUMDB=off.

How to work: read the anchored code closely and hunt for corner cases the statement covers but the code may not: boundary values, empty/nil/zero inputs, unusual but legal inputs (JSON null, duplicate entries, names with odd characters), error paths (a failing disk, cache, audit sink, network, key service), restarts, cancellation and deadlines, two operations overlapping in time, configuration extremes. For each suspicion write a small Go test (file zz_audit_test.go in the relevant package, test names starting with TestAudit, in-package access allowed, no network, under a minute) and run it. A test that FAILS on the unchanged code and whose failure is a genuine violation of the statement (not merely of your expectations — re-read the statement) is a finding.

{known}

Deliver a directory {wt}/_audit/ containing:
  REPORT.txt — for each finding: what the statement promises, the exact input/state/schedule that breaks it, what the code does instead, where in the code (file:line) and why, and how serious it is; then a list of the suspicions you tested that turned out to be fine (one line each). If you found nothing after a thorough look, say so and list what you tested.
  a copy of zz_audit_test.go (keep only tests that demonstrate findings plus at most three of the passing probes).
Leave the test file in place in the worktree (untracked). In your final answer, list the findings in at most 8 lines (or say that you found none).""")
